#!/bin/sh
# Offline setup: nothing to install (stdlib + the repository's own numpy/numba). Warm numba's on-disk cache once.
HERE="$(cd "$(dirname "$0")" && pwd)"
cd "$HERE" || exit 1
mkdir -p evidence replays
PYTHONPATH="$HERE:/repo" /venv/bin/python -m opfmon.warm || true
exit 0
