"""One shard of one check: generate cases, run the real code under the monitors, write a JSON report.

usage: python -m opfmon.shard <ID> <tier> <seed> <shard> <nshards> <out.json> [--replay FILE]
"""
from __future__ import annotations

import collections
import importlib
import json
import logging
import os
import sys
import time
import traceback
import warnings

VERIF = os.path.dirname(os.path.dirname(os.path.abspath(__file__)))
REPO = os.environ.get("OPFMON_REPO", "/repo")


def _prepare():
    logging.disable(logging.CRITICAL)
    warnings.simplefilter("ignore")
    if REPO not in sys.path:
        sys.path.insert(0, REPO)
    import numpy as np

    np.seterr(all="ignore")
    import opfython  # noqa: F401

    got = os.path.realpath(os.path.dirname(os.path.dirname(opfython.__file__)))
    if got != os.path.realpath(REPO):
        raise SystemExit(f"opfython imported from {got}, expected {REPO}")


_REACHED = set()


def start_reach_monitor():
    """Function-level reach of the code under test (sys.monitoring PY_START, disabled per code object after the first hit,
    so the cost is negligible).  numba-compiled bodies do not run as Python and are not seen."""
    mon = getattr(sys, "monitoring", None)
    if mon is None:
        return False
    tool = 4
    try:
        mon.use_tool_id(tool, "opfmon-reach")
    except ValueError:
        return False
    root = os.path.realpath(REPO) + os.sep + "opfython" + os.sep

    def on_start(code, offset):
        fn = code.co_filename
        if fn.startswith(root):
            _REACHED.add(fn[len(os.path.realpath(REPO)) + 1:] + "::" + code.co_qualname)
        return mon.DISABLE

    mon.register_callback(tool, mon.events.PY_START, on_start)
    mon.set_events(tool, mon.events.PY_START)
    return True


def load_module(pid):
    return importlib.import_module("opfmon.props." + pid.lower())


def prop_num(pid):
    return int(pid[1:])


def case_rng(seed, pid, idx):
    import numpy as np

    return np.random.default_rng([int(seed) & 0xFFFFFFFF, prop_num(pid), int(idx)])


def write_replay(pid, case, res, origin):
    from .base import case_hash, jsonable

    d = os.path.join(VERIF, "replays", pid)
    os.makedirs(d, exist_ok=True)
    case = jsonable(case)
    path = os.path.join(d, case_hash(case) + ".json")
    with open(path, "w") as f:
        json.dump({"property": pid, "origin": origin, "violations": res.violations, "case": case}, f, allow_nan=True)
    return path


def try_shrink(mod, case, res, budget=120):
    """Greedy shrink: accept a smaller case while a violation with the same key persists."""
    if not hasattr(mod, "shrink"):
        return case, res
    keys = {v["key"] for v in res.violations}
    runs = 0
    improved = True
    t_end = time.time() + 60
    while improved and runs < budget and time.time() < t_end:
        improved = False
        cands = mod.shrink(case)          # consumed lazily: a long case has very many candidates
        while True:
            try:
                cand = next(cands)
            except StopIteration:
                break
            except Exception:      # pseudo-cases of one-off passes have nothing to shrink
                return case, res
            runs += 1
            if runs > budget or time.time() > t_end:
                break
            try:
                r2 = mod.check(cand)
            except Exception:
                continue
            if r2.rejected is None and any(v["key"] in keys for v in r2.violations):
                case, res, improved = cand, r2, True
                break
    return case, res


def main(argv):
    pid, tier, seed, shard, nshards, out = argv[0], argv[1], int(argv[2]), int(argv[3]), int(argv[4]), argv[5]
    replay = argv[argv.index("--replay") + 1] if "--replay" in argv else None
    _prepare()
    from .base import brief, case_hash, jsonable

    start_reach_monitor()
    mod = load_module(pid)
    t0 = time.time()
    rep = {
        "property": pid, "tier": tier, "seed": seed, "shard": shard,
        "evaluations": 0, "nontrivial_hashes": [], "obs": {}, "cells": [], "samples": [],
        "violations": [], "harness_errors": [], "timed_out": False,
    }
    obs = collections.Counter()
    cells = set()
    hashes = set()

    def absorb(case, res, origin):
        rep["evaluations"] += 1
        obs.update(res.obs)
        cells.update(res.cells)
        if res.rejected is not None:
            return
        if res.nontrivial:
            h = case_hash(jsonable(case))
            if h not in hashes:
                hashes.add(h)
                if len(rep["samples"]) < 3:
                    rep["samples"].append(brief(case))
        if res.violations:
            small, r2 = try_shrink(mod, case, res)
            path = write_replay(pid, small, r2, origin)
            for v in r2.violations:
                rep["violations"].append({**v, "replay": path})

    if replay:
        with open(replay) as f:
            doc = json.load(f)
        res = mod.check(doc["case"])
        absorb(doc["case"], res, {"replay_of": replay})
    else:
        budget = mod.BUDGET[tier]
        total = int(budget["cases"])
        deadline = t0 + float(budget["seconds"])
        if hasattr(mod, "extra"):
            try:
                for case, res in mod.extra(tier, seed, shard, nshards):
                    absorb(case, res, {"extra": True, "seed": seed})
            except Exception:
                rep["harness_errors"].append(traceback.format_exc()[-3000:])
        for idx in range(shard, total, nshards):
            if time.time() > deadline:
                rep["timed_out"] = True
                obs["budget_time_reached"] += 1
                break
            if len(rep["violations"]) >= 12:
                break
            rng = case_rng(seed, pid, idx)
            try:
                case = mod.generate(rng, tier, idx)
                res = mod.check(case)
            except Exception:
                rep["harness_errors"].append(f"case idx={idx}\n" + traceback.format_exc()[-3000:])
                if len(rep["harness_errors"]) > 5:
                    break
                continue
            absorb(case, res, {"seed": seed, "idx": idx, "tier": tier})

    rep["reached"] = sorted(_REACHED)
    rep["obs"] = dict(obs)
    rep["cells"] = sorted(cells)
    rep["nontrivial_hashes"] = sorted(hashes)
    rep["wall_s"] = time.time() - t0
    with open(out, "w") as f:
        json.dump(jsonable(rep), f, allow_nan=True)


if __name__ == "__main__":
    main(sys.argv[1:])
