"""C08 — metric axioms: finite, symmetric, non-negative, zero self-distance, triangle.

The axiom table is fixed in opfmon/metrics_table.py (flags s/n/z/t per metric, on the stated domain).
Every evaluation calls the REAL registry function on fresh copies of the literal vectors.
"""
from __future__ import annotations

import math

import numpy as np

from ..base import Result
from ..gen import dom_vec, int_vec
from ..metrics_table import NAMES, SQRT_FORMS, T, reference

ID = "C08"
RULE = ("Per case one metric and a triple (x,y,z) from its domain in one input class: independent, identical (y=x), "
        "parallel (y=c*x), one-dimensional, zero-containing, collinear triple, near-degenerate (y~x), tiny (components on a 0.8e-20 lattice around the library's EPSILON); lengths 1..33 and, for 6% of cases, 150 / 784. Judged: finite for "
        "d(x,y),d(y,x),d(x,x); symmetric |dxy-dyx|<=1e-12*scale (flag s); d>=-1e-10*max(S,1) (flag n); |d(x,x)|<=1e-10*max(S,1) "
        "[sqrt of that for square-root forms] (flag z); d(x,z)<=d(x,y)+d(y,z)+1e-9*sum+1e-13*n[*1e5 for the log forms] (flag t). "
        "Non-trivial: length>=2 or class dim1; distinct = distinct (metric, triple) hash; cells = metric x axiom x class.")
ASSUMPTIONS = [
    "which metric claims which axiom on which domain is the fixed table in opfmon/metrics_table.py (printed in this evidence file)",
    "rounding slack as stated in the rule; a NaN fails 'finite' whatever the axiom",
    "zero-containing vectors are in scope for decorated (EPSILON-shifted) metrics and for N-domain metrics",
    "magnitudes up to 1e3 (R) / 5e2 (P)",
]
BUDGET = {
    "quick": {"cases": 60000, "seconds": 90, "shards": 8},
    "thorough": {"cases": 2000000, "seconds": 900, "shards": 16},
}
REQUIRED_OBS = ["finite_checked", "symmetric_checked", "nonneg_checked", "zero_self_checked", "triangle_checked",
                "class:identical", "class:parallel", "class:zeros", "class:dim1", "class:collinear", "class:tiny", "class:intdtype", "class:mixeddtype"]
MIN_NONTRIVIAL = 1000
CLASSES = ["indep", "identical", "parallel", "dim1", "zeros", "collinear", "near", "tiny", "intdtype", "mixeddtype"]
LENGTHS = [1, 2, 3, 5, 8, 16, 33]


def generate(rng, tier, idx):
    name = NAMES[idx % len(NAMES)]
    kind, dec = T[name][1], T[name][3]
    cls = CLASSES[(idx // len(NAMES)) % len(CLASSES)] if rng.random() < 0.8 else CLASSES[int(rng.integers(0, len(CLASSES)))]
    n = LENGTHS[int(rng.integers(0, len(LENGTHS)))]
    if rng.random() < 0.06:
        n = int(rng.choice([150, 784]))       # image-sized vectors: sums / products of many terms (overflow, accumulation)
    if cls == "dim1":
        n = 1
    zeros = cls == "zeros" and (kind == "N" or (dec and kind in ("P", "Q")))
    tiny = cls == "tiny"          # all three on a lattice of step 0.8e-20 (R and N domains): straddles the library's EPSILON
    if tiny and rng.random() < 0.5:
        n = int(rng.choice([1, 2, 3]))
    x = dom_vec(rng, kind, n, zeros=zeros, tiny=tiny)
    y = dom_vec(rng, kind, n, zeros=zeros, tiny=tiny)
    z = dom_vec(rng, kind, n, zeros=zeros, tiny=tiny)
    dtype = "f64"
    if cls == "intdtype" and kind != "Q":
        # integer-valued vectors passed as int32 / int64 arrays, zeros included where the EPSILON shift applies
        dtype = str(rng.choice(["i32", "i64", "u8", "u16"]))
        zok = bool(dec)
        x, y, z = (int_vec(rng, kind, n, zok, narrow=dtype in ("u8", "u16")).astype(float) for _ in range(3))
        if rng.random() < 0.3:
            y = x.copy()
    if cls == "mixeddtype" and kind != "Q":
        # x integer-valued (handed over as int64), y and z fractional float64: the two arguments have DIFFERENT dtypes
        x = int_vec(rng, kind, n, bool(dec)).astype(float)
        dtype = "mixed"
    if cls == "identical":
        y = x.copy()
    elif cls == "parallel":
        if kind == "Q":
            y = x.copy()
            z = x.copy()
        else:
            y = x * float(rng.choice([2.0, 0.5, 3.0, 1.5]))
    elif cls == "collinear":
        t = float(rng.uniform(0, 1))
        y = x + t * (z - x)          # stays inside every (convex) domain
        if kind == "Q":
            y = y / y.sum()
    elif cls == "near":
        y = x * (1 + 1e-9) if kind != "Q" else x.copy()
    return {"metric": name, "cls": cls, "x": x.tolist(), "y": y.tolist(), "z": z.tolist(), "dtype": dtype}


def check(case):
    from opfython.math.distance import DISTANCES

    res = Result()
    name, cls = case["metric"], case["cls"]
    _ref, kind, flags, dec = T[name]
    fn = DISTANCES[name]
    X, Y, Z = case["x"], case["y"], case["z"]

    npdt = {"i32": np.int32, "i64": np.int64, "u8": np.uint8, "u16": np.uint16}.get(case.get("dtype", "f64"), float)

    def arr(v):
        a = np.array(v, dtype=float)
        if case.get("dtype") == "mixed":
            return a.astype(np.int64) if v is X or v == X else a
        return a.astype(npdt)

    def d(a, b):
        try:
            return float(fn(arr(a), arr(b)))
        except Exception as ex:  # an exception on an in-domain vector pair delivers no number at all
            res.violate("finite", f"C08/exception/{type(ex).__name__}", f"{name} raised {type(ex).__name__}: {str(ex)[:200]} on {a} {b}")
            return None

    dxy, dyx, dxx = d(X, Y), d(Y, X), d(X, X)
    if res.violations:
        return res
    res.see("class:" + cls)
    res.nontrivial = len(X) >= 2 or cls == "dim1"
    _, S = reference(name, X, Y)
    if not math.isfinite(S):
        return res.reject("reference-magnitude-not-finite")
    scale = max(S, 1.0)

    # finite
    res.see("finite_checked", 3)
    res.cell(name, "finite", cls)
    for v, tag, a, b in ((dxy, "d(x,y)", X, Y), (dyx, "d(y,x)", Y, X), (dxx, "d(x,x)", X, X)):
        if not math.isfinite(v):
            key = "C08/not-finite/identical-or-parallel" if (tag == "d(x,x)" or cls in ("identical", "parallel", "near")) else "C08/not-finite"
            res.violate("finite", key, f"{name} {tag} = {v!r} for class {cls}: a={a} b={b}")
            return res
    if "s" in flags:
        res.see("symmetric_checked")
        res.cell(name, "sym", cls)
        if abs(dxy - dyx) > 1e-12 * max(abs(dxy), abs(dyx), scale):
            res.violate("symmetric", "C08/asymmetric", f"{name}: d(x,y)={dxy!r} d(y,x)={dyx!r} x={X} y={Y}")
    if "n" in flags:
        res.see("nonneg_checked")
        res.cell(name, "nonneg", cls)
        for v, tag in ((dxy, "d(x,y)"), (dyx, "d(y,x)")):
            if v < -1e-10 * scale:
                res.violate("nonneg", "C08/negative", f"{name}: {tag}={v!r} < 0 (scale {scale:.3g}) x={X} y={Y}")
                break
    if "z" in flags:
        res.see("zero_self_checked")
        res.cell(name, "zero", cls)
        _, Sxx = reference(name, X, X)
        tol = 1e-10 * max(Sxx if math.isfinite(Sxx) else 1.0, 1.0)
        if name in SQRT_FORMS:
            tol = math.sqrt(tol)
        if abs(dxx) > tol:
            res.violate("zero-self", "C08/self-distance-nonzero", f"{name}: d(x,x)={dxx!r} (tol {tol:.3g}) x={X}")
    if "t" in flags:
        dyz, dxz = d(Y, Z), d(X, Z)
        if res.violations:
            return res
        res.see("triangle_checked")
        res.cell(name, "tri", cls)
        if not (math.isfinite(dyz) and math.isfinite(dxz)):
            res.violate("finite", "C08/not-finite", f"{name}: d(y,z)={dyz!r} d(x,z)={dxz!r}")
        elif dxz > dxy + dyz + 1e-9 * (dxy + dyz) + 1e-13 * len(X) * (1e5 if name.startswith("log_") else 1.0):
            res.violate("triangle", "C08/triangle", f"{name}: d(x,z)={dxz!r} > d(x,y)+d(y,z)={dxy + dyz!r} x={X} y={Y} z={Z}")
    return res


def shrink(case):
    x, y, z = case["x"], case["y"], case["z"]
    for i in range(len(x)):
        if len(x) > 1:
            yield {**case, "x": x[:i] + x[i + 1:], "y": y[:i] + y[i + 1:], "z": z[:i] + z[i + 1:]}


def evidence_extra(obs, cells):
    return {"axiom_table": {k: {"domain": v[1], "flags": v[2], "epsilon_shift": bool(v[3])} for k, v in sorted(T.items())}}
