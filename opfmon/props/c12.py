"""C12 — the k-NN graph and the density estimate are exact."""
from __future__ import annotations

import math

import numpy as np

from .. import gen
from ..base import Result
from ..metrics_table import T
from ..snap import safe_call

ID = "C12"
RULE = ("A fresh KNNSubgraph per case (public API only): n=2..30 (quick) / ..70 samples from Gaussian, integer lattice (many equal distances), rounded, "
        "duplicate-row and collinear generators, every symmetric dissimilarity or a pre-computed matrix M1..M4 with shuffled indices, k from 1 to n+2. "
        "create_arcs: per sample min(k,n-1) distinct neighbours != self, their distances == the ascending list of the smallest distances (multiset "
        "under ties), radius == their max, returned per-rank maxima and density bound == true maxima (1 if < 1e-5). calculate_pdf (k<=n-1): constant, "
        "min/max of sum(exp(-d/c))/(k+1) within 1e-12 rel., affine map to [1,MAX_DENSITY] (extremes exact, values within conditioning-aware "
        "tolerance, order preserved), cost == density-1; in 30% of the cases the density is re-estimated for a k' <= k after assigning the bound of rank k' (the unsupervised models' sequence). eliminate_maxima_height for positive / zero / negative h. Non-trivial: n>=5, 2<=k<=n-2 and "
        "an insertion that displaces an earlier candidate; distinct = case hash.")
RULE += (' 12% of the on-the-fly cases hand a decoy table over with the switch off (must be ignored).')
ASSUMPTIONS = [
    "one arc creation on a fresh subgraph (the code never resets the density bound between calls - outside the statement)",
    "density values are compared with a tolerance scaled by the conditioning of the affine map, 999*max(pdf)/(max-min)*1e-12 + 1e-9; when max-min <= 1e-12*max only the extremes/all-equal clause is judged",
    "weights finite and non-negative (else rejected)",
]
BUDGET = {
    "quick": {"cases": 12000, "seconds": 90, "shards": 8},
    "thorough": {"cases": 300000, "seconds": 900, "shards": 16},
}
REQUIRED_OBS = ["repeated_identifier_cases", "decoy_table_with_switch_off", "pdf_with_smaller_k", "exhaustive_small_graph_cases", "instance_history_cases", "arcs_checked", "pdf_checked", "k>n-1", "tied_kth_distance", "eliminate_positive", "eliminate_nonpositive", "all_equal_density",
                "pre_computed_cases", "displacing_insertion", "bound_fallback_to_1"]
MIN_NONTRIVIAL = 150


def generate(rng, tier, idx):
    n = gen.sizes(rng, tier, lo=2, quick_hi=30, thorough_hi=70)
    d = int(rng.integers(1, 5))
    gc = gen.pick(rng, ["G1", "G2", "G2", "G3", "G4", "G5"])
    name = gen.pick(rng, gen.SAFE_METRICS) if rng.random() < 0.6 else gen.pick(rng, gen.SYMMETRIC_DISSIMILARITIES)
    X = gen.to_domain(gen.make_dataset(rng, n, d, gc), T[name][1])
    r = rng.random()
    if r < 0.06:
        X = X * 0 + X[0]                      # all samples coincide: every distance 0 -> bound falls back to 1
    elif r < 0.1:
        X = X * 1e-7
    k = int(rng.choice([1, 2, 3, max(1, n - 2), max(1, n - 1), n, n + 2, int(rng.integers(1, n + 3))]))
    case = {"X": X.tolist(), "k": k, "metric": name, "gclass": gc, "pre": None, "history": bool(rng.random() < 0.2),
            # the unsupervised models' own sequence: arcs once for max_k, then per candidate k' <= max_k the bound is assigned and the density re-estimated
            "pdf_k": int(rng.integers(1, min(k, n - 1) + 1)) if rng.random() < 0.3 and n >= 3 else None,
            "h": [float(rng.choice([0.5, 1.0, 10.0, 999.0, 2000.0])), 0.0, -1.0]}
    if rng.random() < 0.25:
        N = n + int(rng.integers(0, 5))
        D = gen.make_matrix(rng, N, gen.pick(rng, ["M1", "M2", "M3", "M4"]))
        I = rng.permutation(N)[:n]
        r = rng.random()
        if r < 0.12:
            I = rng.integers(0, N, size=n)          # a with-replacement resample: nodes sharing an identifier are still distinct samples
        elif r < 0.2:
            D = np.where(D > 0, 1e-5 if rng.random() < 0.5 else rng.choice([1e-5, 5e-6], size=D.shape), 0.0)   # exactly AT the 1e-5 threshold
            D = np.triu(D, 1) + np.triu(D, 1).T
        case["pre"] = {"D": D.tolist(), "I": [int(i) for i in I], "flag": str(rng.choice(["True", "True", "np.True_", "1"]))}
    elif rng.random() < 0.1:
        case["I_onthefly"] = [int(v) for v in rng.integers(0, max(2, n // 2), size=n)]
    elif rng.random() < 0.12:
        case["decoy_table"] = gen.make_matrix(rng, n, "M1").tolist()      # a table is handed over but the switch is OFF: it must be ignored
    return case


def check(case):
    import opfython.utils.constants as c
    from opfython.math.distance import DISTANCES
    from opfython.subgraphs import KNNSubgraph

    res = Result()
    X = np.array(case["X"], dtype=float)
    n, k, name, pre = len(X), int(case["k"]), case["metric"], case["pre"]
    fn = DISTANCES[name]
    if pre:
        D = np.array(pre["D"], dtype=float)
        I = np.array(pre["I"], dtype=int)
        sg = KNNSubgraph(X.copy(), np.zeros(n, dtype=int), I.copy())
        W = D[np.ix_(I, I)].copy()
        np.fill_diagonal(W, 0.0)
        res.see("pre_computed_cases")
        if len(set(I.tolist())) < n:
            res.see("repeated_identifier_cases")
    else:
        D = None
        Iof = np.array(case["I_onthefly"], dtype=int) if case.get("I_onthefly") else None
        sg = KNNSubgraph(X.copy(), np.zeros(n, dtype=int), Iof)
        W = np.array([[float(fn(X[i].copy(), X[j].copy())) if i != j else 0.0 for j in range(n)] for i in range(n)])
    if not np.all(np.isfinite(W)) or np.any(W < 0):
        return res.reject("weights-not-finite-nonnegative")
    history = bool(case.get("history"))
    if history:
        # the models call create_arcs / destroy_arcs repeatedly on ONE subgraph: an earlier creation with the same k on LARGER
        # distances must not leak into this one (the density bound, which the code never resets, is not judged in this variant)
        big = np.ones((max(n, int(np.max(pre["I"])) + 1 if pre else n),) * 2) * (float(W.max()) * 3.0 + 1.0)
        np.fill_diagonal(big, 0.0)
        safe_call(sg.create_arcs, k, fn, True, big)
        safe_call(sg.destroy_arcs)
        res.see("instance_history_cases")
    flag = {"True": True, "np.True_": np.True_, "1": 1}.get((pre or {}).get("flag", "True"), True) if pre else False
    if not pre and case.get("decoy_table"):
        D = np.array(case["decoy_table"], dtype=float)
        res.see("decoy_table_with_switch_off")
    call = safe_call(sg.create_arcs, k, fn, flag, D)
    if not call.ok:
        res.violate("arcs", f"C12/exception/create_arcs/{type(call.exc).__name__}", f"create_arcs(k={k}) on n={n} raised at {call.where}: {str(call.exc)[:200]}")
        return res
    maxd = np.asarray(call.value, dtype=float)
    kk = min(k, n - 1)
    if k > n - 1:
        res.see("k>n-1")
    true_rank_max = np.zeros(k)
    displaced = False
    for i in range(n):
        others = [j for j in range(n) if j != i]
        ds = sorted(W[i, j] for j in others)
        want = ds[:kk]
        adj = [int(a) for a in sg.nodes[i].adjacency]
        if len(adj) != kk or len(set(adj)) != len(adj) or i in adj or any(not (0 <= a < n) for a in adj):
            res.violate("arcs", "C12/neighbour-list-malformed", f"sample {i}: neighbour list {adj} should hold {kk} distinct other samples (n={n}, k={k})")
            return res
        got = [W[i, a] for a in adj]
        if got != want:
            res.violate("arcs", "C12/neighbours-not-nearest",
                        f"sample {i}: distances of its neighbour list {got} != ascending {kk} smallest distances {want} (n={n}, k={k})")
            return res
        if kk < len(ds) and ds[kk - 1] == ds[kk]:
            res.see("tied_kth_distance")
        rad = max(want) if want else 0.0
        if sg.nodes[i].radius != rad:
            res.violate("arcs", "C12/radius", f"sample {i}: radius {sg.nodes[i].radius!r} != largest neighbour distance {rad!r}")
            return res
        for l in range(kk):
            true_rank_max[l] = max(true_rank_max[l], want[l])
        # did the insertion scan ever displace an earlier candidate? (a later index enters the k-nearest set before an earlier one)
        if kk >= 1 and any(adj[t] > adj[t + 1] for t in range(len(adj) - 1)):
            displaced = True
    res.see("arcs_checked")
    if displaced:
        res.see("displacing_insertion")
    if maxd.shape != (k,) or not np.array_equal(maxd, true_rank_max):
        res.violate("arcs", "C12/per-rank-maxima", f"returned per-rank maxima {maxd.tolist()} != true maxima {true_rank_max.tolist()}")
        return res
    if history:
        res.nontrivial = n >= 5 and 2 <= k <= n - 2 and displaced
        res.cell("history", case["gclass"])
        return res
    bound = float(true_rank_max.max()) if k >= 1 else 0.0
    if bound < 0.00001:
        bound = 1
        res.see("bound_fallback_to_1")
    if sg.density != bound:
        res.violate("arcs", "C12/density-bound", f"density bound {sg.density!r} != true maximum neighbour distance {bound!r}")
        return res

    pdf_k = case.get("pdf_k")
    if pdf_k and pdf_k <= min(k, n - 1):
        b2 = float(true_rank_max[pdf_k - 1])
        if b2 >= 0.00001:
            kk = k = pdf_k
            bound = b2
            sg.density = maxd[pdf_k - 1]
            res.see("pdf_with_smaller_k")
    if k <= n - 1:
        call = safe_call(sg.calculate_pdf, k, fn, flag, D)
        if not call.ok:
            res.violate("pdf", f"C12/exception/calculate_pdf/{type(call.exc).__name__}", f"calculate_pdf(k={k}) raised at {call.where}: {str(call.exc)[:200]}")
            return res
        const = 2 * bound / 9
        if sg.constant != const:
            res.violate("pdf", "C12/constant", f"constant {sg.constant!r} != 2*bound/9 = {const!r}")
            return res
        pdf = []
        for i in range(n):
            adj = [int(a) for a in sg.nodes[i].adjacency]
            pdf.append(math.fsum(math.exp(-W[i, a] / const) for a in adj[:k]) / (k + 1))
        lo, hi = min(pdf), max(pdf)
        res.see("pdf_checked")

        def close(a, b):
            return abs(a - b) <= 1e-12 * max(abs(a), abs(b)) + 1e-300

        if not close(float(sg.min_density), lo) or not close(float(sg.max_density), hi):
            res.violate("pdf", "C12/pdf-range", f"stored min/max density {float(sg.min_density)!r},{float(sg.max_density)!r} != min/max of sum(exp(-d/c))/(k+1) = {lo!r},{hi!r} (k={k})")
            return res
        dens = [float(nd.density) for nd in sg.nodes]
        costs = [float(nd.cost) for nd in sg.nodes]
        if not all(math.isfinite(v) for v in dens):
            res.violate("pdf", "C12/density-not-finite", f"node densities not finite: {dens[:8]}")
            return res
        all_equal_impl = sg.min_density == sg.max_density
        if all_equal_impl:
            res.see("all_equal_density")
            if any(v != c.MAX_DENSITY for v in dens) or any(v != c.MAX_DENSITY - 1 for v in costs):
                res.violate("pdf", "C12/all-equal-density", f"all pdf values equal but densities {dens[:6]} / costs {costs[:6]} are not MAX_DENSITY / MAX_DENSITY-1")
                return res
        else:
            if abs(min(dens) - 1) > 1e-9 or abs(max(dens) - c.MAX_DENSITY) > 1e-9 * c.MAX_DENSITY:
                res.violate("pdf", "C12/density-extremes", f"mapped densities span [{min(dens)!r}, {max(dens)!r}], expected [1, {c.MAX_DENSITY}]")
                return res
            if hi - lo > 1e-12 * hi:
                amp = (c.MAX_DENSITY - 1) * hi / (hi - lo)
                tol = 1e-12 * amp + 1e-9
                for i in range(n):
                    ref = (c.MAX_DENSITY - 1) * (pdf[i] - lo) / (hi - lo) + 1
                    if abs(dens[i] - ref) > tol * max(1.0, abs(ref)):
                        res.violate("pdf", "C12/density-value", f"sample {i}: density {dens[i]!r} != affine map of its pdf {ref!r} (tol {tol:.3g})")
                        return res
                order = np.argsort(pdf, kind="stable")
                for a, b in zip(order[:-1], order[1:]):
                    if pdf[b] - pdf[a] > 1e-9 * hi and not dens[a] <= dens[b]:
                        res.violate("pdf", "C12/density-order", f"pdf[{a}]<pdf[{b}] but density {dens[a]!r} > {dens[b]!r}")
                        return res
            else:
                res.see("ill_conditioned_map_skipped")
            for i in range(n):
                if costs[i] != dens[i] - 1:
                    res.violate("pdf", "C12/initial-cost", f"sample {i}: cost {costs[i]!r} != density-1 = {dens[i] - 1!r}")
                    return res
        for h in case["h"]:
            before = [float(nd.cost) for nd in sg.nodes]
            call = safe_call(sg.eliminate_maxima_height, h)
            if not call.ok:
                res.violate("height", f"C12/exception/eliminate_maxima_height/{type(call.exc).__name__}", f"eliminate_maxima_height({h}) raised at {call.where}")
                return res
            after = [float(nd.cost) for nd in sg.nodes]
            if h > 0:
                res.see("eliminate_positive")
                want = [max(v - h, 0) for v in dens]
                if after != want:
                    i = next(t for t in range(n) if after[t] != want[t])
                    res.violate("height", "C12/eliminate-maxima", f"h={h}: sample {i} cost {after[i]!r} != max(density-h,0) = {want[i]!r}")
                    return res
            else:
                res.see("eliminate_nonpositive")
                if after != before:
                    res.violate("height", "C12/eliminate-maxima", f"h={h} (non-positive) changed costs")
                    return res
    res.nontrivial = n >= 5 and 2 <= k <= n - 2 and displaced
    res.cell(name if not pre else "pre", case["gclass"], "k<=n-1" if k <= n - 1 else "k>n-1")
    return res


def shrink(case):
    n = len(case["X"])
    if case["pre"]:
        return
    for i in range(n - 1, -1, -1):
        if n > 2:
            yield {**case, "X": case["X"][:i] + case["X"][i + 1:]}
    if case["k"] > 1:
        yield {**case, "k": case["k"] - 1}


def extra(tier, seed, shard=0, nshards=1):
    """Bounded-exhaustive pass: every symmetric weight matrix over a small alphabet on 3..5 nodes (all tie patterns, including
    zero distances) x every k in 1..n+1, as a pre-computed matrix with a reversed index array."""
    out, agg, n_cases = [], Result(), 0
    seen = set()
    for n, D, _Y in gen.exhaustive_small_graphs(tier, shard, nshards):
        key = D.tobytes()
        if key in seen:
            continue
        seen.add(key)
        D0 = D - 1.0                      # alphabet shifted to start at 0: exact zero distances between distinct samples too
        np.fill_diagonal(D0, 0.0)
        for M in (D, D0):
            I = list(range(n))[::-1]
            DD = np.zeros((n, n))
            for a in range(n):
                for b in range(n):
                    DD[I[a], I[b]] = M[a, b]
            for k in range(1, n + 2):
                case = {"X": [[float(i)] for i in I], "k": k, "metric": "euclidean", "gclass": "EXH", "history": False,
                        "pre": {"D": DD.tolist(), "I": I}, "h": [1.0, 0.0]}
                r = check(case)
                n_cases += 1
                if r.violations:
                    out.append((case, r))
                else:
                    agg.obs.update(r.obs)
    agg.see("exhaustive_small_graph_cases", n_cases)
    agg.cell("exhaustive-small-graphs", tier)
    out.append(({"exhaustive_small_graphs": {"tier": tier, "cases_this_shard": n_cases}}, agg))
    return out
