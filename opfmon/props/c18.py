"""C18 — splitting, merging, loading, parsing and converting preserve every sample."""
from __future__ import annotations

import os
import shutil
import struct
import tempfile
from fractions import Fraction

import numpy as np

from ..base import Result
from ..snap import safe_call

ID = "C18"
RULE = ("Split cases: n=1..60 rows carrying a unique id in column 0 (duplicated feature rows and labels allowed), percentage in {0,1,random,k/n}, "
        "random seeds (0 and 1 included), the global numpy RNG disturbed before the call: split / split_with_index outputs partition the rows, labels (and indices) "
        "follow their rows, |first|=floor(n*p), same seed => same outputs, merge gives the input back as a multiset. Convert cases: the harness "
        "writes an OPF binary (<iii header, <ii + f floats per record; arbitrary ids, labels 1..K, float32 features incl. denormal/huge values), "
        "runs opf2txt/opf2csv/opf2json, load_*, parse_loader and Subgraph(from_file=...): features == stored float32 values, labels == stored-1, "
        "ids preserved, identical across the three formats; non-sequential labels are rejected by parse_loader. Non-trivial: duplicates present, "
        "p not in {0,1}, K>=3 (split) / n>=3, f>=2, K>=2 (convert); distinct = case hash.")
RULE += (' 15% of the conversion cases use signed identifiers (negative first identifier in half of them).')
ASSUMPTIONS = [
    "files have n>=2 rows and >=1 feature (a one-row text file loads as a 1-D array: outside the statement)",
    "floor(n*p): both the exact rational floor and the float product's floor are accepted when they differ by rounding",
]
BUDGET = {
    "quick": {"cases": 16000, "seconds": 90, "shards": 8},
    "thorough": {"cases": 500000, "seconds": 900, "shards": 16},
}
REQUIRED_OBS = ["returned_arrays_scribbled", "seed_zero_cases", "split_checked", "split_with_index_checked", "merge_checked", "determinism_checked", "convert_checked", "format:txt", "format:csv",
                "format:json", "subgraph_from_file_checked", "nonsequential_rejected", "p_extreme", "same_path_reconvert_checked"]
MIN_NONTRIVIAL = 300


def generate(rng, tier, idx):
    if idx % 2 == 0:
        n = int(rng.integers(1, 61))
        d = int(rng.integers(1, 5))
        K = int(rng.integers(1, 6))
        F = rng.integers(0, 3, size=(n, d)).astype(float) if rng.random() < 0.5 else rng.normal(size=(n, d))
        Y = rng.integers(0, K, size=n)
        r = rng.random()
        p = 0.0 if r < 0.08 else (1.0 if r < 0.16 else (float(rng.integers(0, n + 1)) / n if r < 0.4 else float(rng.random())))
        return {"kind": "split", "F": F.tolist(), "Y": [int(v) for v in Y], "p": p, "seed": int(rng.choice([0, 0, 1, int(rng.integers(0, 2 ** 31 - 1)), int(rng.integers(0, 2 ** 31 - 1))])),
                "noise": int(rng.integers(0, 1000))}
    n = int(rng.integers(2, 40))
    f = int(rng.integers(1, 7))
    if rng.random() < 0.004:
        n, f = 4096, 1                     # record counts at a power-of-two block boundary (chunked readers)
    K = int(rng.integers(1, 6))
    labels = list(range(1, K + 1)) + [int(v) for v in rng.integers(1, K + 1, size=max(0, n - K))]
    labels = [labels[int(i)] for i in rng.permutation(len(labels))][:n]
    seq = True
    if rng.random() < 0.15 and K >= 2:
        drop = int(rng.integers(1, K))          # remove a non-maximal class -> labels not sequential
        labels = [(K if l == drop else l) for l in labels]
        seq = sorted(set(labels)) == list(range(1, max(labels) + 1))
    if rng.random() < 0.06:
        labels[int(rng.integers(0, len(labels)))] = 0      # a 0-based label in the binary becomes -1 after the shift: not 0..K-1
    if sorted(set(labels)) != list(range(1, max(labels) + 1)):
        seq = False
    ids = [int(v) for v in rng.choice(2 ** 31 - 1, size=n, replace=False)] if rng.random() < 0.5 else list(range(n))
    if rng.random() < 0.15:
        ids = [int(v) for v in rng.choice(np.arange(-100000, 100000), size=n, replace=False)]       # the binary format stores SIGNED 32-bit identifiers
        if rng.random() < 0.5:
            ids[0] = -abs(ids[0]) - 1
    feats = rng.normal(size=(n, f)).astype(np.float32)
    special = np.array([0.0, -0.0, 1e-45, 3.4e38, -3.4e38, 1.17549435e-38, 16777217.0, 0.1], dtype=np.float32)
    mask = rng.random((n, f)) < 0.15
    feats[mask] = special[rng.integers(0, len(special), size=int(mask.sum()))]
    return {"kind": "convert", "ids": ids, "labels": labels, "feats": [[float(v) for v in row] for row in feats], "sequential": bool(seq),
            "declared_classes": int(max(labels)), "default_out": bool(rng.random() < 0.3)}


def check(case):
    res = Result()
    if case["kind"] == "split":
        return _split(case, res)
    tmp = tempfile.mkdtemp(prefix="c18_")
    try:
        return _convert(case, res, tmp)
    finally:
        shutil.rmtree(tmp, ignore_errors=True)


def _split(case, res):
    import opfython.stream.splitter as sp

    F = np.array(case["F"], dtype=float)
    n = len(F)
    X = np.hstack([np.arange(n, dtype=float)[:, None], F])     # column 0 = unique row id
    Y = np.array(case["Y"], dtype=int)
    p, seed = case["p"], case["seed"]
    exact = (Fraction(p) * n).__floor__()
    sizes_ok = {exact, int(n * p)}

    def disturb(k):
        np.random.seed(case["noise"] + k)
        np.random.random(k + 1)

    disturb(0)
    a = safe_call(sp.split, X.copy(), Y.copy(), p, seed)
    disturb(3)
    b = safe_call(sp.split_with_index, X.copy(), Y.copy(), p, seed)
    disturb(7)
    a2 = safe_call(sp.split, X.copy(), Y.copy(), p, seed)
    for c, nm in ((a, "split"), (b, "split_with_index"), (a2, "split")):
        if not c.ok:
            res.violate("split", f"C18/exception/{nm}/{type(c.exc).__name__}", f"{nm}(n={n}, p={p}) raised at {c.where}: {str(c.exc)[:200]}")
            return res
    X1, X2, Y1, Y2 = a.value

    def judge(X1, X2, Y1, Y2, nm):
        if len(X1) != len(Y1) or len(X2) != len(Y2):
            res.violate("split", f"C18/{nm}-partition", f"{nm}: features/labels lengths differ: {len(X1)},{len(Y1)} / {len(X2)},{len(Y2)}")
            return False
        ids = [int(r[0]) for r in X1] + [int(r[0]) for r in X2]
        if sorted(ids) != list(range(n)):
            res.violate("split", f"C18/{nm}-partition", f"{nm}: output row ids {sorted(ids)[:20]} are not each input row exactly once (n={n})")
            return False
        for Xs, Ys in ((X1, Y1), (X2, Y2)):
            for r, y in zip(Xs, Ys):
                i = int(r[0])
                if not np.array_equal(r, X[i]) or int(y) != int(Y[i]):
                    res.violate("split", f"C18/{nm}-row-label-mismatch", f"{nm}: output row with id {i} carries features/label {r.tolist()},{int(y)} but the input row has {X[i].tolist()},{int(Y[i])}")
                    return False
        if len(X1) not in sizes_ok:
            res.violate("split", f"C18/{nm}-size", f"{nm}: first set has {len(X1)} samples, floor(n*p) = {sorted(sizes_ok)} for n={n}, p={p!r}")
            return False
        return True

    if not judge(X1, X2, Y1, Y2, "split"):
        return res
    res.see("split_checked")
    Z1, Z2, W1, W2, I1, I2 = b.value
    if not judge(Z1, Z2, W1, W2, "split_with_index"):
        return res
    if [int(r[0]) for r in Z1] != [int(i) for i in I1] or [int(r[0]) for r in Z2] != [int(i) for i in I2]:
        res.violate("split", "C18/split_with_index-index-mismatch", f"index arrays {list(map(int, I1))[:10]}.. do not name the rows returned {[int(r[0]) for r in Z1][:10]}..")
        return res
    res.see("split_with_index_checked")
    # determinism: same seed => same outputs regardless of prior RNG state; split and split_with_index agree
    res.see("determinism_checked")
    B1, B2, C1, C2 = a2.value
    if not (np.array_equal(B1, X1) and np.array_equal(B2, X2) and np.array_equal(C1, Y1) and np.array_equal(C2, Y2)):
        res.violate("split", "C18/split-not-deterministic", f"split with the same seed {seed} gave different outputs after the global RNG was disturbed")
        return res
    # the caller may do what it likes with the RETURNED arrays: scribbling on them must not change a later split
    keepI1, keepI2 = np.array(I1, copy=True), np.array(I2, copy=True)
    keepZ1 = np.array(Z1, copy=True)
    for arr in (I1, I2, Z1, Z2, W1, W2):
        try:
            arr.sort(axis=0)
            arr[...] = 0
        except Exception:  # noqa: BLE001
            pass
    again = safe_call(sp.split_with_index, X.copy(), Y.copy(), p, seed)
    if not again.ok or not (np.array_equal(again.value[4], keepI1) and np.array_equal(again.value[5], keepI2) and np.array_equal(again.value[0], keepZ1)):
        res.violate("split", "C18/split-not-deterministic", f"split_with_index(seed={seed}) changed after the caller modified the arrays returned by the previous call")
        return res
    res.see("returned_arrays_scribbled")
    m = safe_call(sp.merge, X1, X2, Y1, Y2)
    if not m.ok:
        res.violate("merge", f"C18/exception/merge/{type(m.exc).__name__}", f"merge raised at {m.where}")
        return res
    MX, MY = m.value
    res.see("merge_checked")
    got = sorted((tuple(r), int(y)) for r, y in zip(np.asarray(MX).tolist(), MY))
    want = sorted((tuple(r), int(y)) for r, y in zip(X.tolist(), Y))
    if got != want:
        res.violate("merge", "C18/merge-loses-samples", f"merge of the two halves is not the input multiset (n={n}, merged {len(got)})")
        return res
    if p in (0.0, 1.0):
        res.see("p_extreme")
    if seed == 0:
        res.see("seed_zero_cases")
    dup = len({tuple(r) for r in F.tolist()}) < n
    res.nontrivial = dup and 0 < p < 1 and len(set(case["Y"])) >= 3
    res.cell("split", "n" + str(min(n, 5)), "p0" if p == 0 else ("p1" if p == 1 else "pmid"))
    return res


def _convert(case, res, tmp):
    import opfython.stream.loader as ld
    import opfython.stream.parser as ps
    import opfython.utils.converter as cv
    import opfython.utils.exception as e
    from opfython.core.subgraph import Subgraph

    ids, labels = case["ids"], case["labels"]
    feats = np.array(case["feats"], dtype=np.float32)
    n, f = feats.shape
    path = os.path.join(tmp, "ds.dat")
    with open(path, "wb") as fh:
        fh.write(struct.pack("<iii", n, case["declared_classes"], f))
        for i in range(n):
            fh.write(struct.pack("<ii" + "f" * f, ids[i], labels[i], *[float(v) for v in feats[i]]))
    want_X = feats.astype(np.float64)
    want_Y = np.array(labels, dtype=int) - 1
    loaded = {}
    for ext, conv, load in (("txt", cv.opf2txt, ld.load_txt), ("csv", cv.opf2csv, ld.load_csv), ("json", cv.opf2json, ld.load_json)):
        out = os.path.join(tmp, "ds." + ext) if case["default_out"] else os.path.join(tmp, "out_" + ext + "." + ext)
        c = safe_call(conv, path) if case["default_out"] else safe_call(conv, path, out)
        if not c.ok or not os.path.exists(out):
            res.violate("convert", f"C18/exception/opf2{ext}", f"opf2{ext} failed: {c.where if not c.ok else 'no output file ' + out}: {str(c.exc)[:200] if not c.ok else ''}")
            return res
        l = safe_call(load, out)
        if not l.ok or l.value is None:
            res.violate("convert", f"C18/exception/load_{ext}", f"load_{ext} failed on the converter's own output: {l.where}: {str(l.exc)[:200] if not l.ok else 'returned None'}")
            return res
        data = np.asarray(l.value)
        res.see("format:" + ext)
        if data.shape != (n, 2 + f):
            res.violate("convert", f"C18/shape/{ext}", f".{ext}: loaded shape {data.shape}, expected {(n, 2 + f)}")
            return res
        if [int(v) for v in data[:, 0]] != ids:
            res.violate("convert", f"C18/ids-not-preserved/{ext}", f".{ext}: identifiers {data[:, 0].tolist()[:6]} != stored {ids[:6]}")
            return res
        if not np.array_equal(data[:, 1], want_Y.astype(float)):
            res.violate("convert", f"C18/label-shift/{ext}", f".{ext}: labels {data[:, 1].tolist()[:8]} != stored-1 {want_Y.tolist()[:8]}")
            return res
        if not np.array_equal(data[:, 2:], want_X):
            k = np.argwhere(data[:, 2:] != want_X)[0]
            res.violate("convert", f"C18/features-not-exact/{ext}", f".{ext}: feature [{k[0]},{k[1]}] = {data[k[0], 2 + k[1]]!r} != stored float32 {want_X[k[0], k[1]]!r}")
            return res
        loaded[ext] = (data, out)
        p = safe_call(ps.parse_loader, data)
        if case["sequential"]:
            if not p.ok:
                res.violate("parse", f"C18/exception/parse_loader/{type(p.exc).__name__}", f"parse_loader raised on sequential labels: {p.where}: {str(p.exc)[:200]}")
                return res
            PX, PY = p.value
            if not (np.array_equal(PX, want_X) and np.array_equal(PY, want_Y) and np.issubdtype(np.asarray(PY).dtype, np.integer)):
                res.violate("parse", "C18/parse-wrong", f".{ext}: parse_loader output differs from the stored samples")
                return res
        else:
            if p.ok or not isinstance(p.exc, e.ValueError):
                res.violate("parse", "C18/nonsequential-accepted", f".{ext}: labels {sorted(set(want_Y.tolist()))} are not 0..K-1 but parse_loader returned {'a result' if p.ok else type(p.exc).__name__}")
                return res
            res.see("nonsequential_rejected")
    res.see("convert_checked")
    a, b, c3 = loaded["txt"][0], loaded["csv"][0], loaded["json"][0]
    if not (np.array_equal(a, b) and np.array_equal(a, c3)):
        res.violate("convert", "C18/formats-disagree", "the three formats load to different arrays")
        return res
    if case["sequential"]:
        for ext in ("txt", "csv", "json"):
            s = safe_call(Subgraph, from_file=loaded[ext][1])
            if not s.ok:
                res.violate("subgraph", f"C18/exception/subgraph-from-file/{ext}", f"Subgraph(from_file=.{ext}) raised at {s.where}: {str(s.exc)[:200]}")
                return res
            sg = s.value
            res.see("subgraph_from_file_checked")
            if sg.n_nodes != n or any(not np.array_equal(sg.nodes[i].features, want_X[i]) or sg.nodes[i].label != int(want_Y[i]) for i in range(n)) or sg.n_features != f:
                res.violate("subgraph", f"C18/subgraph-from-file-wrong/{ext}", f"Subgraph(from_file=.{ext}) nodes differ from the stored samples")
                return res
    # ---- history: ANOTHER dataset of the same shape is converted to the SAME output paths and loaded again
    ids2 = [int(v) for v in ids[::-1]]
    feats2 = (feats[::-1] * np.float32(0.5) + np.float32(1.0)).astype(np.float32)
    labels2 = labels[::-1]
    path2 = os.path.join(tmp, "ds.dat")
    with open(path2, "wb") as fh:
        fh.write(struct.pack("<iii", n, case["declared_classes"], f))
        for i in range(n):
            fh.write(struct.pack("<ii" + "f" * f, ids2[i], labels2[i], *[float(v) for v in feats2[i]]))
    for ext, conv, load in (("txt", cv.opf2txt, ld.load_txt), ("csv", cv.opf2csv, ld.load_csv), ("json", cv.opf2json, ld.load_json)):
        out = loaded[ext][1]
        c = safe_call(conv, path2) if case["default_out"] else safe_call(conv, path2, out)
        l = safe_call(load, out) if c.ok else c
        if not l.ok or l.value is None:
            res.violate("convert", f"C18/exception/reconvert/{ext}", f"second conversion/load at the same path failed for .{ext}: {l.where}")
            return res
        data2 = np.asarray(l.value)
        res.see("same_path_reconvert_checked")
        if data2.shape != (n, 2 + f) or [int(v) for v in data2[:, 0]] != ids2 or not np.array_equal(data2[:, 2:], feats2.astype(np.float64)) \
                or not np.array_equal(data2[:, 1], np.array(labels2, dtype=float) - 1):
            stale = data2.shape == loaded[ext][0].shape and np.array_equal(data2, loaded[ext][0])
            res.violate("convert", f"C18/stale-after-reconvert/{ext}",
                        f".{ext}: after converting another dataset to the same path, loading does not return it" + (" (it returns the PREVIOUS file's content)" if stale else ""))
            return res
    res.nontrivial = n >= 3 and f >= 2 and max(labels) >= 2
    res.cell("convert", "f" + str(min(f, 4)), "seq" if case["sequential"] else "nonseq", "default" if case["default_out"] else "explicit")
    return res
