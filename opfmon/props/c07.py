"""C07 — no call modifies caller data; results depend only on argument values.

Events: byte fingerprints of every caller-owned array before/after each public call; the value sequence
of repeated evaluations on the SAME array objects; forest snapshots of models fitted at different points
of a history on the same arrays.  Sanitizer pass: the same histories on write-protected arrays.
"""
from __future__ import annotations

import os
import shutil
import tempfile

import numpy as np

from ..base import Result
from ..gen import dom_vec, int_vec, make_labels, to_domain
from ..metrics_table import NAMES, T
from ..snap import build_model, fhex, fingerprint, forest_snapshot, safe_call, snapshot_diff

ID = "C07"
RULE = ("Metric histories: a pool of 2..5 shared vectors (zero-containing for shifted metrics), 2..40 evaluations on the same "
        "array objects in random order (also the same object as both arguments), interleaved with evaluations on vectors of other lengths; "
        "each value must equal bit-for-bit the value on fresh copies of the original values AND the first value seen for that pair in the history, and every pool array must be byte-identical after every call. Model histories: "
        "fit/predict/get_distances/save/pre_compute_distance/evaluations on shared X,Y,V,Q arrays for the four models; arrays "
        "byte-identical after every call; every fit's forest snapshot and every predict's output equal those of a fresh model on "
        "fresh copies. 1 in 4 cases runs write-protected (flags.writeable=False). Non-trivial: history length>=2 on arrays holding "
        "an exact zero (shifted metrics) or any array (others); distinct = case hash.")
ASSUMPTIONS = [
    "SupervisedOPF.learn is excluded: it exchanges rows by contract (C17)",
    "an exception raised by a model on these inputs is counted 'aborted' (other properties judge delivery); the arrays must still be unchanged",
    "model histories use every metric except 'statistic' (signed, antisymmetric: no model is defined on it)",
]
BUDGET = {
    "quick": {"cases": 20000, "seconds": 90, "shards": 8},
    "thorough": {"cases": 600000, "seconds": 900, "shards": 16},
}
REQUIRED_OBS = ["caller_index_arrays", "big_endian_matrix", "first_use_values_compared", "wrap:subclass", "wrap:i64", "float32_evaluations", "metric_eval_compared", "model_fit_compared", "model_predict_compared", "protected_cases",
                "fingerprints_compared", "history_on_exact_zero", "other_length_evaluations"]
MIN_NONTRIVIAL = 300
MODEL_METRICS = [n for n in NAMES if n != "statistic"]


class _Sub(np.ndarray):
    """A user-defined ndarray subclass: np.asarray(view) is a NEW object sharing the caller's memory."""


def _plant_zeros(rng, A, frac=0.25):
    A = np.array(A, dtype=float)
    mask = rng.random(A.shape) < frac
    A[mask] = 0.0
    return A


def generate(rng, tier, idx):
    protect = bool(idx % 4 == 3)
    if idx % 3 != 0:
        name = NAMES[(idx // 3) % len(NAMES)]
        kind, dec = T[name][1], T[name][3]
        n = int(rng.choice([1, 2, 3, 5, 9]))
        k = int(rng.integers(2, 6))
        zeros = bool(dec or kind == "N") and rng.random() < 0.8
        pool = [dom_vec(rng, kind, n, zeros=zeros) for _ in range(k)]
        if zeros:
            pool[0][int(rng.integers(0, n))] = 0.0
        nops = int(rng.integers(2, 41))
        ops = [[int(rng.integers(0, k)), int(rng.integers(0, k))] for _ in range(nops)]
        # interleaved evaluations on vectors of OTHER lengths (longer and shorter): state kept between calls would leak here
        noise = [dom_vec(rng, kind, m).tolist() for m in (n + int(rng.integers(1, 9)), max(1, n - 1), n + 17)]
        for _ in range(int(rng.integers(1, 6))):
            ops.insert(int(rng.integers(0, len(ops))), [-1, int(rng.integers(0, len(noise)))])
        wrap = "plain"
        r = rng.random()
        if r < 0.12 and kind != "Q":
            wrap = "i32" if rng.random() < 0.5 else "i64"           # integer-valued pool handed over as integer arrays
            pool = [int_vec(rng, kind, n, bool(dec)).astype(float) for _ in range(k)]
        elif r < 0.2:
            wrap = "subclass"                                        # views of the caller's data typed as an ndarray subclass
        return {"kind": "metric", "metric": name, "pool": [p.tolist() for p in pool], "ops": ops, "protect": protect, "noise": noise,
                "wrap": wrap}
    model = ["supervised", "semi", "knn", "unsup"][(idx // 3) % 4]
    name = MODEL_METRICS[int(rng.integers(0, len(MODEL_METRICS)))] if rng.random() < 0.7 else "log_squared_euclidean"
    kind, dec = T[name][1], T[name][3]
    n, d = int(rng.integers(4, 13)), int(rng.integers(2, 5))

    def data(m):
        A = to_domain(rng.normal(size=(m, d)) * 2, kind)
        if dec or kind == "N":
            A = _plant_zeros(rng, A)
            if kind == "Q":
                A = A + 0.0
        return A

    X = data(n)
    byteorder = ">" if rng.random() < 0.06 else "="
    if rng.random() < 0.06:
        X[int(rng.integers(0, n)), int(rng.integers(0, d))] = float(rng.choice([np.nan, np.inf, -np.inf]))     # still the caller's data
    Y = make_labels(rng, X, "random", K=int(rng.integers(2, 4)))
    V = data(int(rng.integers(2, 7)))
    YV = rng.integers(0, int(Y.max()) + 1, size=len(V))
    Q = data(int(rng.integers(1, 7)))
    choices = ["fit", "predict", "dist", "save", "pre", "eval", "predict", "fit", "noise"]
    ops = ["fit"] + (["noise", "fit"] if rng.random() < 0.3 else []) + [choices[int(rng.integers(0, len(choices)))] for _ in range(int(rng.integers(1, 9)))]
    max_k = int(rng.integers(1, min(4, n - 1) + 1))
    return {"kind": "model", "model": model, "metric": name, "X": X.tolist(), "Y": Y.tolist(), "V": V.tolist(),
            "YV": YV.tolist(), "Q": Q.tolist(), "ops": ops, "protect": protect, "max_k": max_k, "byteorder": byteorder,
            "pre_idx": ([int(v) for v in rng.permutation(n + 3)[:n]] if (model in ("supervised", "unsup") and rng.random() < 0.2) else None),
            "neg_idx": bool(rng.random() < 0.3)}


def _same(a, b):
    return fhex(a) == fhex(b)


def _is_write_error(ex):
    s = (type(ex).__name__ + " " + str(ex)).lower()
    return "read-only" in s or "readonly" in s or "not writeable" in s or "cannot modify" in s


def check(case):
    res = Result()
    if "first_use_probe" in case:
        return _first_use(res)
    if case["kind"] == "metric":
        return _check_metric(case, res)
    tmp = tempfile.mkdtemp(prefix="c07_")
    try:
        return _check_model(case, res, tmp)
    finally:
        shutil.rmtree(tmp, ignore_errors=True)


def _check_metric(case, res):
    from opfython.math.distance import DISTANCES

    name = case["metric"]
    fn = DISTANCES[name]
    pool0 = case["pool"]
    wrap = case.get("wrap", "plain")
    if wrap in ("i32", "i64"):
        arrays = [np.array(v, dtype=float).astype(np.int32 if wrap == "i32" else np.int64) for v in pool0]
    elif wrap == "subclass":
        arrays = [np.array(v, dtype=float).view(_Sub) for v in pool0]
    else:
        arrays = [np.array(v, dtype=float) for v in pool0]
    res.see("wrap:" + wrap)

    def fresh(v):
        a = np.array(v, dtype=float)
        return a.astype(np.int32 if wrap == "i32" else np.int64) if wrap in ("i32", "i64") else a
    if case["protect"]:
        for a in arrays:
            a.flags.writeable = False
        res.see("protected_cases")
    has_zero = any(0.0 in v for v in pool0)
    first_value = {}
    noise = case.get("noise") or []
    for k, (i, j) in enumerate(case["ops"]):
        if i < 0:
            if noise:
                v = np.array(noise[j % len(noise)], dtype=float)
                safe_call(fn, v, v[::-1].copy())
                res.see("other_length_evaluations")
                if j % 2 == 0:          # ... and in another floating precision (state keyed by dtype *kind* would leak into float64)
                    v32 = v.astype(np.float32)
                    safe_call(fn, v32, v32[::-1].copy())
                    res.see("float32_evaluations")
            continue
        before = [fingerprint(a) for a in arrays]
        c = safe_call(fn, arrays[i], arrays[j])
        after = [fingerprint(a) for a in arrays]
        res.see("fingerprints_compared", len(arrays))
        if before != after:
            who = [t for t in range(len(arrays)) if before[t] != after[t]]
            res.violate("caller-data", "C07/caller-array-modified/distance",
                        f"{name}: evaluation #{k} on pool[{i}],pool[{j}] changed pool arrays {who}: now {[arrays[t].tolist() for t in who]} "
                        f"was {[pool0[t] for t in who]}")
            return res
        if not c.ok:
            if _is_write_error(c.exc):
                res.violate("write-protect", "C07/write-to-caller-array/distance",
                            f"{name}: write attempted on a read-only caller array at {c.where}: {type(c.exc).__name__}: {str(c.exc)[:200]}")
                return res
            res.see("aborted:" + type(c.exc).__name__)
            continue
        ref = safe_call(fn, fresh(pool0[i]), fresh(pool0[j]))
        if ref.ok:
            res.see("metric_eval_compared")
            if not _same(c.value, ref.value):
                res.violate("history", "C07/value-depends-on-history/distance",
                            f"{name}: evaluation #{k} on shared arrays gave {float(c.value)!r}, same values on fresh copies give {float(ref.value)!r}; "
                            f"x={pool0[i]} y={pool0[j]} (same object: {i == j})")
                return res
        # the value for given argument VALUES must not change along the history (first evaluation = reference)
        key = (i, j)
        if key not in first_value:
            first_value[key] = (c.value, k)
        elif not _same(first_value[key][0], c.value):
            res.violate("history", "C07/value-depends-on-history/distance",
                        f"{name}: pool[{i}],pool[{j}] evaluated to {float(first_value[key][0])!r} at op #{first_value[key][1]} and to {float(c.value)!r} at op #{k} "
                        f"of the same process history (arrays unchanged); x={pool0[i]} y={pool0[j]}")
            return res
    if has_zero and len(case["ops"]) >= 2:
        res.see("history_on_exact_zero")
    res.nontrivial = len(case["ops"]) >= 2 and (has_zero or not T[name][3])
    res.cell(name, "metric", "zero" if has_zero else "nozero", "ro" if case["protect"] else "rw")
    return res


def _fit(kind, m, X, Y, V, YV, I=None):
    if I is not None and kind in ("supervised", "unsup"):
        return safe_call(m.fit, X, Y, I)
    if kind == "supervised":
        return safe_call(m.fit, X, Y)
    if kind == "semi":
        return safe_call(m.fit, X, Y, V)
    if kind == "knn":
        return safe_call(m.fit, X, Y, V, YV)
    return safe_call(m.fit, X, Y)


def _check_model(case, res, tmp):
    import opfython.math.general as g
    from opfython.math.distance import DISTANCES

    kind, name = case["model"], case["metric"]
    orig = {k: np.array(case[k], dtype=(int if k in ("Y", "YV") else float)) for k in ("X", "Y", "V", "YV", "Q")}
    if case.get("byteorder") == ">":
        orig["X"] = orig["X"].astype(">f8")            # a matrix in non-native byte order (e.g. read from a big-endian file)
        res.see("big_endian_matrix")
    pre_file = None
    if case.get("pre_idx"):
        # a pre-computed model: the caller also owns the INDEX arrays (one entry may be negative: the library rejects it, and must
        # not "repair" it in the caller's array)
        I = np.array(case["pre_idx"], dtype=int)
        if case.get("neg_idx"):
            I[0] = -1
        orig["I"] = I
        N = len(I) + 3
        rngm = np.random.default_rng(len(I))
        A = rngm.uniform(0.1, 5, size=(N, N)); A = np.triu(A, 1); A = A + A.T
        pre_file = os.path.join(tmp, "pre.txt")
        np.savetxt(pre_file, A)
        res.see("caller_index_arrays")
    arrs = {k: v.copy() for k, v in orig.items()}
    if case["protect"]:
        for a in arrs.values():
            a.flags.writeable = False
        res.see("protected_cases")
    has_zero = bool((orig["X"] == 0).any())
    kw = {"max_k": case["max_k"]}
    if pre_file:
        kw["pre"] = pre_file

    # reference: a fresh model on fresh copies of the original values
    f = {k: v.copy() for k, v in orig.items()}
    mref = build_model(kind, name, **kw)
    cref = _fit(kind, mref, f["X"], f["Y"], f["V"], f["YV"], f.get("I"))
    ref_snap = forest_snapshot(mref) if cref.ok else None
    ref_pred = None
    if cref.ok:
        f2 = orig["Q"].copy()
        cp = safe_call(mref.predict, f2)
        ref_pred = cp.value if cp.ok else None
    if not cref.ok:
        res.see("aborted:" + type(cref.exc).__name__)

    def fps():
        return {k: fingerprint(v) for k, v in arrs.items()}

    model = None
    for k, op in enumerate(case["ops"]):
        before = fps()
        c = None
        if op == "fit":
            model = build_model(kind, name, **kw)
            c = _fit(kind, model, arrs["X"], arrs["Y"], arrs["V"], arrs["YV"], arrs.get("I"))
            if c.ok and ref_snap is not None:
                res.see("model_fit_compared")
                diff = snapshot_diff(forest_snapshot(model), ref_snap)
                if diff:
                    res.violate("determinism", "C07/fit-depends-on-history",
                                f"{kind}/{name}: fit #{k} after history {case['ops'][:k]} differs from a fresh model on equal data: {diff}")
                    return res
            if not c.ok:
                model = None
        elif op == "predict" and model is not None:
            c = safe_call(model.predict, arrs["Q"])
            if c.ok and ref_pred is not None:
                res.see("model_predict_compared")
                if _plain(c.value) != _plain(ref_pred):
                    res.violate("determinism", "C07/predict-depends-on-history",
                                f"{kind}/{name}: predict #{k} after history {case['ops'][:k]} gave {_plain(c.value)}, fresh model on equal data gives {_plain(ref_pred)}")
                    return res
        elif op == "dist" and model is not None:
            c = safe_call(model.get_distances)
        elif op == "save" and model is not None:
            c = safe_call(model.save, os.path.join(tmp, "m.pkl"))
        elif op == "pre":
            c = safe_call(g.pre_compute_distance, arrs["X"], os.path.join(tmp, "d.txt"), name)
        elif op == "eval":
            i, j = k % len(arrs["X"]), (3 * k + 1) % len(arrs["X"])
            c = safe_call(DISTANCES[name], arrs["X"][i], arrs["X"][j])
        elif op == "noise":
            # unrelated work in the same process: the metric on longer / shorter vectors, and a model of another dimension
            d = arrs["X"].shape[1]
            for m in (d + 5, max(1, d - 1), d + 20):
                v = np.abs(np.linspace(0.1, 2.0, m)) / (m if T[name][1] == "Q" else 1.0)
                safe_call(DISTANCES[name], v.copy(), v[::-1].copy())
            wide = np.hstack([orig["X"], orig["X"][:, :1] * 0.5 + 0.1, orig["X"][:, :1] * 0.25 + 0.2])
            other = build_model("supervised", name)
            safe_call(other.fit, wide, orig["Y"].copy())
            # a fresh model of the SAME kind and parameters on wider-spread data of the same shape (module-level work arrays
            # keyed by k / by shape would carry its maxima over)
            spread = build_model(kind, name, **kw)
            _fit(kind, spread, orig["X"] * 7.0 + 1.0, orig["Y"].copy(), orig["V"] * 7.0 + 1.0, orig["YV"].copy())
            res.see("other_length_evaluations")
        after = fps()
        res.see("fingerprints_compared", len(arrs))
        if before != after:
            who = [t for t in arrs if before[t] != after[t]]
            delta = {t: int((arrs[t] != orig[t]).sum()) for t in who}
            res.violate("caller-data", f"C07/caller-array-modified/{op}",
                        f"{kind}/{name}: op #{k} '{op}' changed caller arrays {who} (entries now differing from the original: {delta})")
            return res
        if c is not None and not c.ok:
            if _is_write_error(c.exc):
                res.violate("write-protect", f"C07/write-to-caller-array/{op}",
                            f"{kind}/{name}: op '{op}' attempted a write on a read-only caller array at {c.where}: {str(c.exc)[:200]}")
                return res
            res.see("aborted:" + type(c.exc).__name__)
    if has_zero and len(case["ops"]) >= 2:
        res.see("history_on_exact_zero")
    res.nontrivial = len(case["ops"]) >= 2 and cref.ok
    res.cell(name, kind, "zero" if has_zero else "nozero", "ro" if case["protect"] else "rw")
    return res


def _plain(v):
    if isinstance(v, tuple):
        return [list(map(int, x)) for x in v]
    return list(map(int, v))


def shrink(case):
    ops = case["ops"]
    for i in range(len(ops) - 1, 0, -1):
        yield {**case, "ops": ops[:i] + ops[i + 1:]}
    if case["kind"] == "metric" and len(case["pool"][0]) > 1:
        n = len(case["pool"][0])
        for t in range(n):
            yield {**case, "pool": [p[:t] + p[t + 1:] for p in case["pool"]]}


def extra(tier, seed, shard=0, nshards=1):
    """First-use order: in fresh interpreters every metric is evaluated on fixed float64 vectors (a) directly, (b) after a float32
    evaluation, (c) after an integer evaluation.  The float64 values must be identical in the three processes."""
    import json
    import subprocess
    import sys

    if shard != 0:
        return []
    return [({"first_use_probe": True}, _first_use(Result()))]


def _first_use(res):
    import json
    import subprocess
    import sys

    docs = {}
    for order in ("f64", "f32-first", "int-first"):
        try:
            pr = subprocess.run([sys.executable, "-m", "opfmon.first_use", order], capture_output=True, text=True, timeout=600)
            docs[order] = json.loads(pr.stdout)
        except Exception as ex:  # noqa: BLE001 - could not run: this sub-claim is inconclusive, never an alarm
            res.see("first_use_probe_failed_to_run")
            res.note = repr(ex)[:200]
            return res
    for order in ("f32-first", "int-first"):
        for name, v in docs["f64"].items():
            res.see("first_use_values_compared")
            if docs[order].get(name) != v:
                res.violate("history", "C07/value-depends-on-history/first-use-order",
                            f"{name}: float64 value {v} in a fresh process, but {docs[order].get(name)} when the process evaluated it {order} "
                            f"(x=[0,2,1,0.25], y=[3,0,1.5,0.25])")
                break
    res.cell("first-use-order")
    return res
