"""C03 — supervised prediction equals the exhaustive minimum of max(cost, distance)."""
from __future__ import annotations

import numpy as np

from .. import gen, supcase
from ..base import Result
from ..snap import is_library_domain_error, safe_call
from .c01 import shrink_rows

ID = "C03"
RULE = ("Fitted SupervisedOPF / SemiSupervisedOPF models from the C01 generators (all symmetric non-negative metrics, pre-computed matrices); "
        "query batches of training copies, 1e-3 perturbations, exact midpoints of pairs, far outliers, in-batch duplicates. For every query the "
        "harness scans ALL training samples, m(t)=max(cost_t, d(t,x)) in the code's argument order, and requires the returned label to be the "
        "assigned label of some t with m(t)==min m. Non-trivial: the batch holds a query for which the real scan stopped early and one for which "
        "it did not (counted from a recording distance wrapper; pre-computed cases: >=1 query with a unique label answer); distinct = case hash.")
ASSUMPTIONS = [
    "the fitted forest (costs, assigned labels) is taken from the implementation; C01 judges it",
    "queries with a NaN weight to some training sample are skipped and counted; +inf weights (overflow) are ordinary values of the exhaustive scan",
    "the number of distance evaluations is evidence only: a legal implementation may evaluate more or fewer",
]
BUDGET = {
    "quick": {"cases": 9600, "seconds": 90, "shards": 8},
    "thorough": {"cases": 200000, "seconds": 900, "shards": 16},
}
REQUIRED_OBS = ["classifier_loaded_into_used_object", "exhaustive_small_graph_cases", "queries_judged", "early_exit_taken", "full_scan", "tie_label_set>1", "query_is_training_copy", "pre_computed_queries", "semi_queries"]
MIN_NONTRIVIAL = 100


def generate(rng, tier, idx):
    semi = idx % 3 == 2
    metrics = gen.SYMMETRIC_DISSIMILARITIES if idx % 2 else gen.SAFE_METRICS
    c = supcase.gen_case(rng, tier, semi=semi, metrics=metrics)
    c["via_load"] = bool(rng.random() < 0.08) and not c.get("pre")
    return c


def admissible(model, R):
    """Per query: (set of admissible labels, set of admissible conquerors, M)."""
    nodes = model.subgraph.nodes
    cost = np.array([float(nd.cost) for nd in nodes])
    out = []
    for x in range(R.shape[1]):
        col = R[:, x]
        if np.any(np.isnan(col)) or np.any(col == -np.inf):
            out.append(None)            # no order among NaN weights: not judged
            continue
        m = np.maximum(cost, col)
        M = m.min()
        win = np.nonzero(m == M)[0]
        out.append(({int(nodes[t].predicted_label) for t in win}, {int(t) for t in win}, float(M)))
    return out


def check(case):
    res = Result()
    if len(set(case["Y"])) < 2:
        return res.reject("single-class")
    o = supcase.run_case(case, with_heap_hooks=False)
    if not o.fit.ok:
        if is_library_domain_error(o.fit.exc):
            return res.reject("library-domain-error")
        return res.reject("fit-aborted:" + type(o.fit.exc).__name__)
    m = o.model
    if case.get("via_load"):
        # the judged classifier arrives by load() into an object that has already been fitted on OTHER data and has predicted
        import os
        import shutil
        import tempfile
        from ..snap import build_model
        tmp = tempfile.mkdtemp(prefix="c03_")
        try:
            safe_call(m.save, os.path.join(tmp, "b.pkl"))          # saved before it ever predicted
            used = build_model(case["model"], case["metric"])
            Xo = np.array(o.X, dtype=float)[::-1] * 1.7 + 0.3
            if case["model"] == "semi":
                safe_call(used.fit, Xo, o.Y[::-1].copy(), o.U.copy())
            else:
                safe_call(used.fit, Xo, o.Y[::-1].copy())
            safe_call(used.predict, o.Q.copy())
            l = safe_call(used.load, os.path.join(tmp, "b.pkl"))
        finally:
            shutil.rmtree(tmp, ignore_errors=True)
        if l.ok:
            m = used
            o.model = used
            res.see("classifier_loaded_into_used_object")
    n = m.subgraph.n_nodes
    counts = []
    if not m.pre_computed_distance:
        orig = m.distance_fn
        box = [0]

        def counting(a, b, _orig=orig, _box=box):
            _box[0] += 1
            return _orig(a, b)

        m.distance_fn = counting
        preds = []
        call = None
        buf = np.empty((1, o.Q.shape[1]))      # ONE array object refilled in place (an identity-keyed cache would go stale)
        for x in range(len(o.Q)):       # one call per query so evaluations are attributable; C09 judges batch independence
            box[0] = 0
            buf[:] = o.Q[x]
            call = safe_call(m.predict, buf)
            if not call.ok:
                break
            preds.append(int(call.value[0]))
            counts.append(box[0])
        m.distance_fn = orig
        if call is not None and call.ok:
            # and the whole batch in one call: must agree with the admissible sets too
            call = safe_call(m.predict, o.Q.copy())
            batch = [int(v) for v in call.value] if call.ok else None
        else:
            batch = None
    else:
        call = safe_call(m.predict, o.Q.copy(), o.IQ.copy())
        preds = [int(v) for v in call.value] if call.ok else []
        batch = None
    if not call.ok:
        if is_library_domain_error(call.exc):
            return res.reject("library-domain-error")
        res.violate("exception", f"C03/exception/predict/{type(call.exc).__name__}", f"predict raised at {call.where}: {call.tb[-400:]}")
        return res
    if len(preds) != len(o.Q):
        res.violate("shape", "C03/prediction-count", f"{len(preds)} predictions for {len(o.Q)} queries")
        return res
    R = supcase.query_weights(o)
    adm = admissible(m, R)
    unique_answer = 0
    for x, a in enumerate(adm):
        if a is None:
            res.see("query_skipped_nonfinite")
            continue
        labels, winners, M = a
        res.see("queries_judged")
        if case["model"] == "semi":
            res.see("semi_queries")
        if case.get("pre"):
            res.see("pre_computed_queries")
        if M == np.inf:
            res.see("all_distances_overflow_queries")      # every training sample ties at +inf: any TRAINING label is admissible
        if len(labels) > 1:
            res.see("tie_label_set>1")
        else:
            unique_answer += 1
        if M == 0 or (R[:, x] == 0).any():
            res.see("query_is_training_copy")
        for tag, got in (("single", preds[x]), ("batch", batch[x] if batch is not None else None)):
            if got is None:
                continue
            if got not in labels:
                res.violate("argmin", "C03/label-not-admissible",
                            f"query {x} ({tag} call): predicted {got}, but the exhaustive scan admits only {sorted(labels)} (min of max(cost,d) = {M!r} at training samples {sorted(winners)[:8]})")
                return res
    early = sum(1 for c in counts if c < n)
    full = sum(1 for c in counts if c >= n)
    if early:
        res.see("early_exit_taken", early)
    if full:
        res.see("full_scan", full)
    for c in counts:
        res.see("evals_frac_%d" % min(4, int(4 * c / max(n, 1))))
    res.nontrivial = (early >= 1 and full >= 1) or (bool(case.get("pre")) and unique_answer >= 1 and n >= 4)
    res.cell(case["model"], case["metric"] if not case.get("pre") else "pre:" + case["gclass"], case["gclass"])
    return res


def shrink(case):
    yield from shrink_rows(case)


def extra(tier, seed, shard=0, nshards=1):
    """Bounded-exhaustive pass: every weight matrix over a small alphabet x every labelling on 3..5 nodes (all tie patterns),
    fed as pre-computed distances with a reversed index array; each is judged by the same oracle as the random cases."""
    out = []
    agg = Result()
    n_cases = 0
    for n, D, Y in gen.exhaustive_small_graphs(tier, shard, nshards):
        I = list(range(n))[::-1]
        Dp = D[np.ix_(I, I)]            # matrix row I[i] holds sample i: the matrix is permuted consistently with the index array
        DD = np.zeros((n, n))
        for a in range(n):
            for b in range(n):
                DD[I[a], I[b]] = D[a, b]
        case = {"model": "supervised", "metric": "log_squared_euclidean", "gclass": "EXH", "pattern": "exh",
                "X": [[float(i)] for i in I], "Y": Y, "U": [], "Q": [[float(q)] for q in range(n)],
                "pre": {"D": DD.tolist(), "I": I, "IQ": list(range(n)), "kind": "EXH"}, "prefit": None}
        r = check(case)
        n_cases += 1
        if r.violations:
            out.append((case, r))
        else:
            agg.obs.update(r.obs)
    agg.see("exhaustive_small_graph_cases", n_cases)
    agg.cell("exhaustive-small-graphs", tier)
    out.append(({"exhaustive_small_graphs": {"tier": tier, "cases_this_shard": n_cases}}, agg))
    return out
