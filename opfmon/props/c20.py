"""C20 — evaluation measures match their definitions and stay within bounds."""
from __future__ import annotations

import math
from fractions import Fraction

import numpy as np

from ..base import Result
from ..snap import safe_call

ID = "C20"
RULE = ("Label vectors with every class 0..K-1 present (K=1..8 and 9..24, N=K..200, skewed class sizes; lists and int64/int32/int16/uint8/int8 arrays; arrays are first filled with another labelling, evaluated, and refilled in place) and predictions in range drawn as: all right, all "
        "wrong, one prediction class, random, mostly-right; passed as lists or int arrays. opf_accuracy vs the exact rational formula "
        "1-(1/2K)sum(FP_c/(N-N_c)+FN_c/N_c) within 1e-12, in [0,1], ==1 iff all correct; confusion matrix == pair counts; per-label accuracy == "
        "recall; purity vs exact rational, in (0,1], ==1 iff every predicted group is pure; normalize vs (x-mean)/std per non-constant column (column scales 1e-12..1e12). "
        "Non-trivial: K>=3, >=1 error, unequal class sizes; distinct = case hash.")
RULE += (' Per run: label vectors of 16384..65537 (thorough ..262145) entries and two with 4100/4300 classes; 20% of the normalisation cases are integer-typed tables (int64/int32/int16/uint8), 8% tables that are almost standardised already.')
ASSUMPTIONS = [
    "domain of the statement: every class 0..K-1 occurs among the true labels, predictions within 0..K-1, equal lengths",
    "normalize is judged with a tolerance 1e-9 + 32*eps*|mean|/std (the conditioning of the subtraction); columns where that exceeds 0.25 are skipped",
]
BUDGET = {
    "quick": {"cases": 40000, "seconds": 90, "shards": 8},
    "thorough": {"cases": 2000000, "seconds": 900, "shards": 16},
}
REQUIRED_OBS = ["normalize_ill_conditioned_column_judged", "normalize_nearly_standardised_table", "many_classes_cases", "normalize_integer_table", "long_vector_cases", "refilled_in_place_cases", "K>=17_uint8", "accuracy_checked", "confusion_checked", "per_label_checked", "purity_checked", "normalize_checked", "all_correct_cases",
                "all_wrong_cases", "K=1", "purity_one_with_errors"]
MIN_NONTRIVIAL = 500


def generate(rng, tier, idx):
    if idx % 8 == 7:
        n, d = int(rng.integers(2, 40)), int(rng.integers(1, 6))
        A = rng.normal(size=(n, d)) * (10.0 ** rng.integers(-3, 4, size=(1, d))) + rng.normal(size=(1, d)) * rng.choice([0, 1, 100])
        if rng.random() < 0.03:
            # a genuinely non-constant column whose spread is tiny beside its offset, many rows (a "constant if std <= n*eps*|mean|" guard bites here)
            n = 2000
            A = 1e6 * float(rng.choice([1.0, -3.0, 40.0])) + rng.uniform(-1, 1, size=(n, d)) * 3e-7 * float(rng.choice([1.0, 3.0]))
        elif rng.random() < 0.3:        # whole matrix at a tiny / huge scale: a non-constant column stays non-constant whatever its spread
            A = rng.normal(size=(n, d)) * (10.0 ** float(rng.choice([-12, -10, -9, -8, -6, 6, 9, 12])))
        if rng.random() < 0.3:
            A[:, int(rng.integers(0, d))] = float(rng.normal())     # a constant column
        if rng.random() < 0.3:
            A = np.round(A, 1)
        if rng.random() < 0.08:
            # a table that is ALMOST standardised already (column means ~1e-9, deviations 1 +- 1e-6): it still has to be normalised
            Zs = rng.normal(size=(max(n, 5), d))
            Zs = (Zs - Zs.mean(axis=0)) / Zs.std(axis=0)
            A = Zs * (1 + rng.uniform(-1, 1, size=(1, d)) * 10.0 ** float(rng.choice([-7, -6, -5]))) + rng.uniform(-1, 1, size=(1, d)) * 1e-9
            return {"kind": "normalize", "A": A.tolist(), "nearly_standardised": True}
        if rng.random() < 0.2:
            # an integer-typed table (counts, pixel values), with or without a constant column
            Z = rng.integers(-50, 50, size=(n, d))
            if rng.random() < 0.5:
                Z[:, int(rng.integers(0, d))] = int(rng.integers(-5, 6))
            return {"kind": "normalize", "A": Z.tolist(), "dtype": str(rng.choice(["int64", "int32", "uint8", "int16"]))}
        return {"kind": "normalize", "A": A.tolist()}
    K = int(rng.integers(1, 9)) if rng.random() < 0.85 else int(rng.integers(9, 25))
    N = int(rng.integers(K, 201)) if rng.random() < 0.5 else int(rng.integers(K, K + 12))
    p = rng.dirichlet(np.ones(K) * rng.choice([0.3, 1.0, 5.0]))
    labels = list(range(K)) + [int(v) for v in rng.choice(K, size=N - K, p=p)]
    labels = [labels[int(i)] for i in rng.permutation(N)]
    mode = int(rng.integers(0, 6))
    if mode == 0:
        preds = list(labels)
    elif mode == 1:
        preds = [(l + 1 + int(rng.integers(0, max(1, K - 1)))) % K if K > 1 else 0 for l in labels]
    elif mode == 2:
        preds = [int(rng.integers(0, K))] * N
    elif mode == 3:
        preds = [int(v) for v in rng.integers(0, K, size=N)]
    elif mode == 4:
        preds = [l if rng.random() < 0.85 else int(rng.integers(0, K)) for l in labels]
    else:
        # a class merge: groups stay impure / a relabelling: groups pure although "wrong"
        perm = rng.permutation(K)
        preds = [int(perm[l]) for l in labels]
    return {"kind": "labels", "labels": labels, "preds": preds, "as_array": bool(rng.random() < 0.5), "dtype": str(rng.choice(["int64", "int32", "int16", "uint8", "int8"])),
            "decoy_shift": int(rng.integers(1, 4))}


def check(case):
    import opfython.math.general as g

    res = Result()
    if case["kind"] == "normalize":
        A = np.array(case["A"], dtype=float)
        if case.get("dtype"):
            Z = np.array(case["A"], dtype=np.int64)
            if case["dtype"] == "uint8":
                Z = Z + 50
            A = Z.astype(float)
            res.see("normalize_integer_table")
            c = safe_call(g.normalize, Z.astype(case["dtype"]))
        else:
            c = safe_call(g.normalize, A.copy())
        if not c.ok:
            res.violate("normalize", f"C20/exception/normalize/{type(c.exc).__name__}", f"normalize raised at {c.where}")
            return res
        out = np.asarray(c.value, dtype=float)
        res.see("normalize_checked")
        if case.get("nearly_standardised"):
            res.see("normalize_nearly_standardised_table")
        if out.shape != A.shape:
            res.violate("normalize", "C20/normalize", f"shape {out.shape} != {A.shape}")
            return res
        ncols = 0
        for j in range(A.shape[1]):
            col = [float(v) for v in A[:, j]]
            mean = math.fsum(col) / len(col)
            var = math.fsum((v - mean) ** 2 for v in col) / len(col)
            std = math.sqrt(var)
            if std == 0 or len(set(col)) == 1:
                continue
            # conditioning of (x-mean)/std: rounding of the mean and of the subtraction is ~eps*|mean| absolute, i.e. eps*|mean|/std
            # relative to the result's scale; columns where even that exceeds 25% are not judged
            cond = 32 * 2.220446049250313e-16 * abs(mean) / std
            if cond > 0.25:
                res.see("normalize_column_too_ill_conditioned")
                continue
            ncols += 1
            want = np.array([(v - mean) / std for v in col])
            if cond > 1e-9:
                res.see("normalize_ill_conditioned_column_judged")
            if not np.allclose(out[:, j], want, rtol=1e-9 + cond, atol=1e-9 + cond):
                k = int(np.argmax(np.abs(out[:, j] - want)))
                res.violate("normalize", "C20/normalize", f"column {j} row {k}: got {out[k, j]!r}, (x-mean)/std = {want[k]!r}")
                return res
        res.nontrivial = ncols >= 1 and A.shape[0] >= 3
        res.cell("normalize", "cols" + str(min(ncols, 5)))
        return res

    labels, preds = case["labels"], case["preds"]
    N, K = len(labels), max(labels) + 1
    if sorted(set(labels)) != list(range(K)) or len(preds) != N or not all(0 <= p < K for p in preds):
        return res.reject("outside-domain")
    dt = case.get("dtype", "int64")
    L = np.array(labels, dtype=dt) if case["as_array"] else list(labels)
    P = np.array(preds, dtype=dt) if case["as_array"] else list(preds)
    if case["as_array"] and K >= 2 and case.get("decoy_shift"):
        # history on the SAME array objects: they first hold another labelling of the same length and classes (the measures are
        # evaluated on it and discarded), then are refilled in place with the case's vectors
        sh = case["decoy_shift"]
        decoy_l = np.array([(v + 1) % K for v in labels], dtype=dt)          # same classes, rotated class sizes
        decoy_p = np.array([(v + sh) % K for v in labels], dtype=dt)
        L[:], P[:] = decoy_l, decoy_p
        for f in (g.opf_accuracy, g.confusion_matrix, g.opf_accuracy_per_label, g.purity):
            safe_call(f, L, P)
        L[:], P[:] = np.array(labels, dtype=dt), np.array(preds, dtype=dt)
        res.see("refilled_in_place_cases")
    L0 = np.array(L, copy=True) if case["as_array"] else list(L)
    P0 = np.array(P, copy=True) if case["as_array"] else list(P)
    cnt = [labels.count(c) for c in range(K)]
    FP = [sum(1 for l, p in zip(labels, preds) if p == c and l != c) for c in range(K)]
    FN = [sum(1 for l, p in zip(labels, preds) if l == c and p != c) for c in range(K)]
    n_err = sum(FN)
    all_ok = n_err == 0
    res.see("K=1" if K == 1 else "K>1")
    if K >= 17 and case["as_array"] and dt in ("uint8", "int8"):
        res.see("K>=17_uint8")
    if all_ok:
        res.see("all_correct_cases")
    if n_err == N:
        res.see("all_wrong_cases")

    # opf_accuracy
    c = safe_call(g.opf_accuracy, L, P)
    if not c.ok:
        res.violate("accuracy", f"C20/exception/opf_accuracy/{type(c.exc).__name__}", f"opf_accuracy raised at {c.where}: {str(c.exc)[:200]}")
        return res
    acc = float(c.value)
    ref = Fraction(0)
    for k in range(K):
        if N - cnt[k] > 0:
            ref += Fraction(FP[k], N - cnt[k])
        ref += Fraction(FN[k], cnt[k])
    ref = 1 - ref / (2 * K)
    res.see("accuracy_checked")
    if not (abs(acc - float(ref)) <= 1e-12):
        res.violate("accuracy", "C20/opf_accuracy-value", f"opf_accuracy={acc!r}, definition gives {float(ref)!r} (K={K}, N={N}, FP={FP}, FN={FN}, counts={cnt})")
        return res
    if not (-1e-12 <= acc <= 1 + 1e-12) or (all_ok and acc != 1.0) or (not all_ok and not acc < 1.0):
        res.violate("accuracy", "C20/opf_accuracy-bounds", f"opf_accuracy={acc!r} with {n_err} errors of {N}")
        return res

    # confusion matrix
    c = safe_call(g.confusion_matrix, L, P)
    if not c.ok:
        res.violate("confusion", f"C20/exception/confusion_matrix/{type(c.exc).__name__}", f"confusion_matrix raised at {c.where}")
        return res
    M = np.asarray(c.value)
    want = np.zeros((K, K))
    for l, p in zip(labels, preds):
        want[l, p] += 1
    res.see("confusion_checked")
    if M.shape != (K, K) or not np.array_equal(M, want) or M.sum() != N:
        res.violate("confusion", "C20/confusion_matrix", f"confusion matrix {M.tolist()} != pair counts {want.tolist()}")
        return res

    # per-label accuracy == recall
    c = safe_call(g.opf_accuracy_per_label, L, P)
    if not c.ok:
        res.violate("per-label", f"C20/exception/opf_accuracy_per_label/{type(c.exc).__name__}", f"opf_accuracy_per_label raised at {c.where}")
        return res
    pl = np.asarray(c.value, dtype=float)
    rec = np.array([float(Fraction(cnt[k] - FN[k], cnt[k])) for k in range(K)])
    res.see("per_label_checked")
    if pl.shape != rec.shape or not np.allclose(pl, rec, rtol=0, atol=1e-12):
        res.violate("per-label", "C20/per-label-accuracy", f"per-label accuracy {pl.tolist()} != recall {rec.tolist()}")
        return res

    # purity
    c = safe_call(g.purity, L, P)
    if not c.ok:
        res.violate("purity", f"C20/exception/purity/{type(c.exc).__name__}", f"purity raised at {c.where}")
        return res
    pu = float(c.value)
    groups = {}
    for l, p in zip(labels, preds):
        groups.setdefault(p, []).append(l)
    refp = Fraction(sum(max(gr.count(t) for t in set(gr)) for gr in groups.values()), N)
    pure = all(len(set(gr)) == 1 for gr in groups.values())
    res.see("purity_checked")
    if pure and not all_ok:
        res.see("purity_one_with_errors")
    if not abs(pu - float(refp)) <= 1e-12 or not (0 < pu <= 1 + 1e-12) or (pure != (pu == 1.0)):
        res.violate("purity", "C20/purity", f"purity={pu!r}, definition {float(refp)!r}, every group pure={pure}")
        return res
    # the measures are pure: the caller's label vectors are unchanged
    if list(map(int, L)) != list(map(int, L0)) or list(map(int, P)) != list(map(int, P0)):
        res.violate("purity-of-measures", "C20/caller-vectors-modified", "a measure modified the caller's label / prediction vector")
        return res
    res.nontrivial = K >= 3 and n_err >= 1 and len(set(cnt)) > 1
    res.cell("K" + str(K), "arr" if case["as_array"] else "list", "ok" if all_ok else ("allwrong" if n_err == N else "mixed"))
    return res


def shrink(case):
    if case["kind"] != "labels":
        return
    n = len(case["labels"])
    for i in range(n - 1, -1, -1):
        l2 = case["labels"][:i] + case["labels"][i + 1:]
        if l2 and sorted(set(l2)) == list(range(max(l2) + 1)):
            p2 = case["preds"][:i] + case["preds"][i + 1:]
            if all(p <= max(l2) for p in p2):
                yield {**case, "labels": l2, "preds": p2}


def extra(tier, seed, shard=0, nshards=1):
    """Long label vectors (whole-dataset evaluations): lengths around 2^14 and 2^16 and 20000, few classes, 10% errors."""
    out = []
    sizes = [16384, 16385, 20000, 65537] if tier == "quick" else [16383, 16384, 16385, 20000, 32769, 65536, 65537, 100003, 262145]
    sizes = sizes + [-12000, -13001]        # negative: many classes (K = 4100 / 4300), a few of them impure
    for t, N in enumerate(sizes):
        if t % nshards != shard % nshards:
            continue
        rng = np.random.default_rng([seed, 20, abs(N)])
        K = int(rng.integers(2, 7))
        if N < 0:
            N, K = -N, (4100 if N == -12000 else 4300)
        labels = np.concatenate([np.arange(K), rng.integers(0, K, size=N - K)])
        rng.shuffle(labels)
        preds = np.where(rng.random(N) < 0.9, labels, rng.integers(0, K, size=N))
        case = {"kind": "labels", "labels": [int(v) for v in labels], "preds": [int(v) for v in preds], "as_array": True, "dtype": "int64", "decoy_shift": 0}
        r = check(case)
        if r.violations:
            out.append((case, r))
        else:
            r.see("long_vector_cases")
            if K > 4096:
                r.see("many_classes_cases")
            out.append(({"long_vectors": {"N": N, "K": K}}, r))
    return out

