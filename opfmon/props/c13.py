"""C13 — density clustering produces a well-formed forest that partitions the samples."""
from __future__ import annotations

import math

import numpy as np

from .. import gen, hooks, knncase
from ..base import Result
from ..snap import is_library_domain_error

ID = "C13"
RULE = ("KNNSupervisedOPF and UnsupervisedOPF fits on Gaussian, lattice (heavily tied), rounded, duplicate, collinear and blob data, n=3..30 (quick) / "
        "..70, all k ranges with max_k<=n-1, safe metrics and all symmetric dissimilarities. State is snapshotted at the return of the FINAL clustering "
        "call (source-free hook; KNN destroys its arcs afterwards) and at fit return; earlier clustering calls of the same fit are only observed. Asserted exactly on stored values: predecessor chains acyclic, "
        "end at a node without predecessor = the recorded root; cluster id / assigned label == root's; roots cost == density; non-roots: member of "
        "pred's post-symmetrisation arc list, cost == min(cost(pred), density), cost > density-1; density - density(root) < 1; unsupervised: "
        "n_clusters == #roots with ids 0..n_clusters-1; propagate_labels gives the root's true label. Non-trivial: >=2 roots, a tree of depth >=2 and "
        ">=1 plateau arc inserted; distinct = case hash.")
RULE += (" Designed boundary family (150 quick / 2000 thorough cases): five samples with directed 1-NN arcs where density(4) == density(3)+1 bit-exactly (bisection with the library's own density computation, targets just below powers of two): the offer equals density-1 and must be refused.")
ASSUMPTIONS = [
    "cases whose densities are not finite (every sample has >= k exact duplicates => zero density bound, 0/0) are rejected by precondition",
    "if the private hook point _clustering is absent, the arc-membership clause is inconclusive for KNN (arcs are destroyed) and everything else is still decided at fit return",
    "a fit that raises is counted and skipped here (C16 owns k selection failures)",
]
BUDGET = {
    "quick": {"cases": 7200, "seconds": 90, "shards": 8},
    "thorough": {"cases": 100000, "seconds": 900, "shards": 16},
}
REQUIRED_OBS = ["exhaustive_small_graph_cases", "unit_gap_cases", "forest_checked:knn", "forest_checked:unsup", "arc_membership_checked", "plateau_arcs_seen", "depth>=2", "roots>=2", "propagate_checked",
                "hook_snapshots"]
MIN_NONTRIVIAL = 100
NIL = -1


def generate(rng, tier, idx):
    metrics = gen.SAFE_METRICS if idx % 3 else gen.SYMMETRIC_DISSIMILARITIES
    return knncase.gen_knn_case(rng, tier, model=("knn" if idx % 2 else "unsup"), metrics=metrics, allow_pre=True)


def _snap(sg):
    return {"adj": [[int(a) for a in nd.adjacency] for nd in sg.nodes], "npl": [int(nd.n_plateaus) for nd in sg.nodes],
            "pred": [int(nd.pred) for nd in sg.nodes], "root": [int(nd.root) for nd in sg.nodes],
            "cost": [float(nd.cost) for nd in sg.nodes], "density": [float(nd.density) for nd in sg.nodes],
            "plabel": [int(nd.predicted_label) for nd in sg.nodes], "label": [int(nd.label) for nd in sg.nodes],
            "cluster": [int(nd.cluster_label) for nd in sg.nodes], "n_clusters": int(sg.n_clusters)}


def judge(res, s, kind, adj=None, tag=""):
    n = len(s["pred"])
    pred, root, cost, dens = s["pred"], s["root"], s["cost"], s["density"]
    if not all(math.isfinite(v) for v in dens + cost):
        return "nonfinite"
    roots = [i for i in range(n) if pred[i] == NIL]
    depth = 0
    for i in range(n):
        a, steps = i, 0
        while pred[a] != NIL:
            a = pred[a]
            steps += 1
            if steps > n:
                res.violate("forest", f"C13/pred-cycle/{kind}", f"{tag}predecessor chain from sample {i} cycles")
                return None
        depth = max(depth, steps)
        if root[i] != a:
            res.violate("forest", f"C13/root-not-propagated/{kind}", f"{tag}sample {i}: recorded root {root[i]} but its predecessor chain ends at {a}")
            return None
        if kind == "unsup" and s["cluster"][i] != s["cluster"][a]:
            res.violate("forest", f"C13/cluster-not-roots/{kind}", f"{tag}sample {i}: cluster {s['cluster'][i]} != its root {a}'s cluster {s['cluster'][a]}")
            return None
        if kind == "knn" and s["plabel"][i] != s["plabel"][a]:
            res.violate("forest", f"C13/label-not-roots/{kind}", f"{tag}sample {i}: assigned label {s['plabel'][i]} != its root {a}'s {s['plabel'][a]}")
            return None
        if not dens[i] - dens[a] < 1:
            res.violate("forest", f"C13/density-exceeds-root/{kind}", f"{tag}sample {i}: density {dens[i]!r} exceeds its root {a}'s {dens[a]!r} by >= 1")
            return None
    for r in roots:
        if cost[r] != dens[r]:
            res.violate("forest", f"C13/root-cost/{kind}", f"{tag}root {r}: cost {cost[r]!r} != density {dens[r]!r}")
            return None
        if kind == "knn" and s["plabel"][r] != s["label"][r]:
            res.violate("forest", f"C13/label-not-roots/{kind}", f"{tag}root {r}: assigned label {s['plabel'][r]} != own label {s['label'][r]}")
            return None
    for i in range(n):
        p = pred[i]
        if p == NIL:
            continue
        if cost[i] != min(cost[p], dens[i]):
            res.violate("forest", f"C13/cost-recurrence/{kind}", f"{tag}sample {i}: cost {cost[i]!r} != min(cost(pred {p})={cost[p]!r}, density={dens[i]!r})")
            return None
        if not cost[i] > dens[i] - 1:
            res.violate("forest", f"C13/cost-not-above-density-1/{kind}", f"{tag}sample {i}: cost {cost[i]!r} is not strictly above density-1 = {dens[i] - 1!r}")
            return None
        if adj is not None:
            res.see("arc_membership_checked")
            if i not in adj[p]:
                res.violate("forest", f"C13/pred-not-neighbour/{kind}", f"{tag}sample {i} has predecessor {p} but is not in {p}'s arc list {adj[p]}")
                return None
    if kind == "unsup":
        ids = sorted(s["cluster"][r] for r in roots)
        if s["n_clusters"] != len(roots) or ids != list(range(len(roots))):
            res.violate("forest", f"C13/cluster-count/{kind}", f"{tag}n_clusters={s['n_clusters']}, roots={len(roots)}, root cluster ids={ids}")
            return None
    return {"roots": len(roots), "depth": depth}


def check(case):
    import opfython.models.knn_supervised as mk
    import opfython.models.unsupervised as mu

    res = Result()
    kind = case["model"]
    X, Y, V, YV, Q = knncase.arrays(case)
    n = len(X)
    if case["max_k"] > n - 1:
        return res.reject("max_k>n-1")
    rec = hooks.Recorder()

    def after_clustering(rec, args, kwargs, result):
        rec.add("clustering", _snap(args[0].subgraph))

    cls = mk.KNNSupervisedOPF if kind == "knn" else mu.UnsupervisedOPF
    with hooks.patched(rec, [(cls, "_clustering", None, after_clustering)] + hooks.heap_targets()):
        m, call = knncase.fit_model(case, before_final=rec.events.clear)
    if not call.ok:
        if is_library_domain_error(call.exc):
            return res.reject("library-domain-error")
        res.see("fit_aborted:" + type(call.exc).__name__)
        return res.reject("fit-aborted")
    final = _snap(m.subgraph)
    snaps = rec.of("clustering")
    hook = snaps[-1] if snaps else None
    if hook is not None:
        res.see("hook_snapshots", len(snaps))
    else:
        res.see("hook_missing")
    plateau = False
    if hook is not None and any(hook[k] != final[k] for k in ("pred", "root", "density")):
        # the last clustering call did not produce the state the fit left (an implementation may keep an earlier candidate's forest):
        # its adjacency snapshot says nothing about the final forest -> the arc-membership clause is undecided for this case
        res.see("last_clustering_call_is_not_the_final_state")
        hook = None
    if hook is not None:
        out = judge(res, hook, kind, adj=hook["adj"], tag="[at final clustering] ")
        if res.violations:
            return res
        if out == "nonfinite":
            return res.reject("densities-not-finite")
        plateau = any(v > 0 for v in hook["npl"]) if kind == "unsup" else any(len(a) > m.subgraph.best_k for a in hook["adj"])
        # intermediate clusterings (other k / without forced prototypes) are not "after training": what they look like is recorded
        # as an observation, never as a verdict
        for t, s in enumerate(snaps[:-1]):
            tmp = Result()
            judge(tmp, s, kind, adj=s["adj"], tag=f"[clustering call #{t}] ")
            res.see("intermediate_clusterings_well_formed" if not tmp.violations else "intermediate_clusterings_irregular")
    adj_final = final["adj"] if kind == "unsup" else None
    out = judge(res, final, kind, adj=adj_final, tag="[at fit return] ")
    if res.violations:
        return res
    if out == "nonfinite":
        return res.reject("densities-not-finite")
    res.see("forest_checked:" + kind)
    if kind == "unsup":
        m.propagate_labels()
        res.see("propagate_checked")
        for i, nd in enumerate(m.subgraph.nodes):
            r = final["root"][i]
            if nd.predicted_label != int(Y[r]):
                res.violate("propagate", "C13/propagate-labels", f"after propagate_labels sample {i} has label {nd.predicted_label}, its root {r}'s true label is {int(Y[r])}")
                return res
    if plateau:
        res.see("plateau_arcs_seen")
    if out["depth"] >= 2:
        res.see("depth>=2")
    if out["roots"] >= 2:
        res.see("roots>=2")
    for msg in rec.of("heap_live_violation"):
        res.see("heap_live_violation_seen")
    res.nontrivial = out["roots"] >= 2 and out["depth"] >= 2 and plateau
    res.cell(kind, case["metric"], case["gclass"])
    return res


def _unit_gap_matrix(d34, d40, perm=(0, 1, 2, 3, 4), extras=()):
    n = 5 + len(extras)
    D = np.full((n, n), 5.0)
    np.fill_diagonal(D, 0.0)
    D[0, 1], D[1, 0], D[2, 3], D[3, 4], D[4, 0] = 0.01, 1.0, 0.05, d34, d40   # 1-NN: 0->1, 1->0, 2->3, 3->4, 4->0
    for j, u in enumerate(extras):       # bystanders on a 1-NN cycle of their own (distances inside (0.01, 1): the density range is untouched);
        D[5 + j, 5 + (j + 1) % len(extras)] = u      # they only vary the shape of the heap the five roles compete in
    P = np.zeros_like(D)                 # the roles sit at positions perm[role]: which of two equal-cost samples leaves the heap first
    for a in range(n):                   # depends on their positions, so every arrangement is tried
        for b in range(n):
            P[perm[a], perm[b]] = D[a, b]
    return P


def _unit_gap_case(d34, d40, perm=(0, 1, 2, 3, 4), extras=(), model="unsup"):
    D = _unit_gap_matrix(d34, d40, perm, extras)
    n = len(D)
    Y = [0] * n
    for role, lab in enumerate([0, 0, 1, 1, 1] + [2] * len(extras)):
        Y[perm[role]] = lab
    return {"model": model, "metric": "log_squared_euclidean", "gclass": "pre:UNITGAP", "pattern": "unitgap", "X": [[float(i)] for i in range(n)],
            "Y": Y, "V": [[0.0], [1.0]], "YV": [max(Y), 0], "Q": [[0.0]], "min_k": 1, "max_k": 1, "refit": False, "propagate": False,
            "pre": {"D": D.tolist(), "I": list(range(n)), "IV": [0, 1] if model == "knn" else None, "IQ": [0], "kind": "UNITGAP"}}


def unit_gap_cases(count, seed):
    """Designed boundary family for the clause `cost strictly above density - 1`: five samples, directed 1-NN arcs, where sample 3 (density T)
    offers sample 4 a cost of exactly density(4) - 1 (density(4) == T + 1 bit-exactly, found by bisection on one matrix entry with the
    library's own density computation).  The offer is not an improvement, so sample 4 must stay a root."""
    import opfython.models.unsupervised as mu

    def dens(d34, d40):
        m = mu.UnsupervisedOPF(min_k=1, max_k=1, pre_computed_distance=None)
        m.pre_computed_distance, m.pre_distances = True, _unit_gap_matrix(d34, d40)
        m.fit(np.arange(5, dtype=float).reshape(5, 1), np.array([0, 0, 1, 1, 1]))
        nd = m.subgraph.nodes
        return float(nd[3].density), float(nd[4].density)

    rng, out, tries = np.random.default_rng([seed, 13, 777]), [], 0
    while len(out) < count and tries < count * 6:
        tries += 1
        d34 = float(rng.uniform(0.08, 0.4))
        if tries % 4:
            # aim density(3) just below a power of two, where density(4) - 1 and the pre-competition cost of sample 4 are most exposed to rounding
            T = 2.0 ** int(rng.integers(5, 10)) - float(rng.uniform(0.0, 1.0))
            A, B = math.exp(-0.045), math.exp(-4.5)
            d34 = -math.log((T - 1) / 999 * (A - B) + B) / 4.5
        lo, hi = 0.011, d34            # density falls as the distance grows: find d40 < d34 with density(4) - density(3) == 1
        try:
            t3, _ = dens(d34, lo)
            for _ in range(70):
                mid = (lo + hi) / 2
                if mid in (lo, hi):
                    break
                if dens(d34, mid)[1] - t3 > 1:
                    lo = mid
                else:
                    hi = mid
            for cand in (hi, lo, float(np.nextafter(hi, 1)), float(np.nextafter(lo, 0))):
                a, b = dens(d34, cand)
                if b == a + 1 or b - 1 == a:
                    m = int(rng.integers(0, 9))
                    extras = tuple(float(v) for v in rng.uniform(0.02, 0.9, size=m)) if m >= 2 else ()
                    out.append(_unit_gap_case(d34, cand, tuple(int(v) for v in rng.permutation(5 + len(extras))), extras,
                                              model="knn" if len(out) % 3 == 2 else "unsup"))
                    break
        except Exception:  # noqa: BLE001 - the probe itself must not decide anything; check() judges the cases it returns
            continue
    return out


def extra(tier, seed, shard=0, nshards=1):
    """Bounded-exhaustive pass: every symmetric weight matrix over {1,2[,3]} on 4..5 nodes (3..4 in the quick tier) x labellings,
    as pre-computed matrices with a reversed index array, for both models and the k ranges 1..1, 1..2, 2..n-1, 1..n-1."""
    out, agg, n_cases = [], Result(), 0
    for n, D, Y in gen.exhaustive_small_graphs(tier, shard, nshards):
        I = list(range(n))[::-1]
        DD = np.zeros((n, n))
        for a in range(n):
            for b in range(n):
                DD[I[a], I[b]] = D[a, b]
        ranges = sorted({(1, 1), (1, min(2, n - 1)), (min(2, n - 1), n - 1), (1, n - 1)})
        for model in ("unsup", "knn"):
            for lo, hi in ranges:
                case = {"model": model, "metric": "log_squared_euclidean", "gclass": "pre:EXH", "pattern": "exh",
                        "X": [[float(i)] for i in I], "Y": list(Y), "V": [[float(i)] for i in range(n)], "YV": [int(Y[I.index(i)]) for i in range(n)],
                        "Q": [[float(i)] for i in range(n)], "min_k": lo, "max_k": hi, "refit": False, "propagate": bool(n_cases % 2),
                        "pre": {"D": DD.tolist(), "I": I, "IV": list(range(n)) if model == "knn" else None, "IQ": list(range(n)), "kind": "EXH"}}
                if max(case["YV"]) < max(Y):
                    continue
                r = check(case)
                n_cases += 1
                if r.violations:
                    out.append((case, r))
                else:
                    agg.obs.update(r.obs)
    agg.see("exhaustive_small_graph_cases", n_cases)
    agg.cell("exhaustive-small-graphs", tier)
    if shard == 0:
        for case in unit_gap_cases(150 if tier == "quick" else 2000, seed):
            r = check(case)
            if r.violations:
                out.append((case, r))
            else:
                agg.obs.update(r.obs)
                agg.see("unit_gap_cases")
    out.append(({"exhaustive_small_graphs": {"tier": tier, "cases_this_shard": n_cases}}, agg))
    return out
