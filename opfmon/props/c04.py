"""C04 — training samples receive their own labels (zero resubstitution error)."""
from __future__ import annotations

import numpy as np

from .. import gen, knncase, supcase
from ..base import Result
from ..snap import is_library_domain_error, safe_call, tie_free
from .c01 import shrink_rows

ID = "C04"
RULE = ("(1) SupervisedOPF on tie-free sets (Gaussian / extreme-scale data, all symmetric non-negative zero-self metrics, tie-free matrices; "
        "the harness verifies all off-diagonal weights pairwise distinct, positive, bit-symmetric and above every self-distance): assigned label == "
        "own label for every sample and predict(X_train) == Y_train. (2) KNNSupervisedOPF on arbitrary data (lattices, duplicates, ties), any "
        "max_k<=n-1, hostile validation labels: assigned label == own label. Non-trivial: (1) >=3 prototypes and a sample whose nearest "
        "neighbour has another label; (2) n>=5 with duplicates or ties or max_k>=2; distinct = case hash.")
RULE += (' One designed tie-free set per run whose optimum path is ~1100 samples deep (class on a line, random decreasing gaps); 64-bit class identifiers (2^40+j) in 1.5% of the supervised cases.')
ASSUMPTIONS = [
    "coincident samples with different labels are not tie-free (their zero distance ties the diagonal) and are rejected by the precondition",
    "KNN fits that abort with an exception are counted, not judged here (C16 owns k selection)",
    "max_k <= n_train-1 (the density estimate needs k neighbours)",
]
BUDGET = {
    "quick": {"cases": 8000, "seconds": 90, "shards": 8},
    "thorough": {"cases": 120000, "seconds": 900, "shards": 16},
}
REQUIRED_OBS = ["deep_path_case", "sup_zero_row_cases", "sup_resub_checked", "sup_predict_train_checked", "knn_resub_checked", "knn_tied_or_duplicate_cases"]
MIN_NONTRIVIAL = 100
ZERO_SELF = [m for m in gen.SYMMETRIC_DISSIMILARITIES]


def generate(rng, tier, idx):
    if idx % 2 == 0:
        metrics = ZERO_SELF if idx % 4 else gen.SAFE_METRICS
        c = supcase.gen_case(rng, tier, metrics=metrics, force_tie_free=True, nq=1)
        c["part"] = "sup"
        from ..metrics_table import T as _T
        if not c.get("pre") and _T[c["metric"]][3] and rng.random() < 0.25:
            c["X"][int(rng.integers(0, len(c["X"])))] = [0.0] * len(c["X"][0])      # the EPSILON shift keeps these metrics defined at 0
            c["zero_row"] = True
        return c
    c = knncase.gen_knn_case(rng, tier, model="knn", metrics=gen.SAFE_METRICS if idx % 4 == 1 else ZERO_SELF)
    c["part"] = "knn"
    return c


def check(case):
    res = Result()
    if case["part"] == "sup":
        return _sup(case, res)
    return _knn(case, res)


def _sup(case, res):
    import opfython.utils.constants as c

    if len(set(case["Y"])) < 2:
        return res.reject("single-class")
    o = supcase.run_case(case, with_prim_hook=False, with_heap_hooks=False)
    if not o.fit.ok:
        if is_library_domain_error(o.fit.exc):
            return res.reject("library-domain-error")
        res.violate("exception", f"C04/exception/fit/{type(o.fit.exc).__name__}", f"fit raised at {o.fit.where}: {o.fit.tb[-300:]}")
        return res
    W = supcase.weights(o)
    if not tie_free(W):
        return res.reject("not-tie-free")
    n = len(W)
    # self-distances as the model evaluates them must lie below every off-diagonal weight
    try:
        if o.model.pre_computed_distance:
            diag = np.array([o.model.pre_distances[nd.idx][nd.idx] for nd in o.model.subgraph.nodes])
        else:
            fn = o.model.distance_fn
            diag = np.array([float(fn(np.array(nd.features, dtype=float), np.array(nd.features, dtype=float))) for nd in o.model.subgraph.nodes])
    except Exception:  # noqa: BLE001 - the metric raised on a self-pair: the model's own predict(X_train) below will show it
        diag = None
        res.see("self_distance_raised")
    offmin = W[np.triu_indices(n, 1)].min()
    if diag is not None and not (np.all(np.isfinite(diag)) and np.all(diag >= 0) and diag.max() < offmin):
        return res.reject("self-distance-not-below-off-diagonal")
    nodes = o.model.subgraph.nodes
    Y = [int(y) for y in case["Y"]]
    res.see("sup_resub_checked")
    if case.get("zero_row"):
        res.see("sup_zero_row_cases")
    for i in range(n):
        if nodes[i].predicted_label != Y[i]:
            res.violate("resubstitution", "C04/train-label-wrong/supervised",
                        f"tie-free set, metric {case['metric']}: training sample {i} has label {Y[i]} but was assigned {nodes[i].predicted_label}")
            return res
    if o.model.pre_computed_distance:
        call = safe_call(o.model.predict, o.X.copy(), o.I.copy())
    else:
        call = safe_call(o.model.predict, o.X.copy())
    if not call.ok:
        res.violate("exception", f"C04/exception/predict/{type(call.exc).__name__}", f"predict(X_train) raised at {call.where}: {call.tb[-300:]}")
        return res
    res.see("sup_predict_train_checked")
    got = [int(v) for v in call.value]
    if got != Y:
        bad = [i for i in range(n) if got[i] != Y[i]]
        res.violate("resubstitution", "C04/predict-train-wrong/supervised",
                    f"tie-free set, metric {case['metric']}: predict(X_train) differs from Y_train at samples {bad[:10]}: got {[got[i] for i in bad[:10]]}, labels {[Y[i] for i in bad[:10]]}")
        return res
    n_protos = sum(1 for nd in nodes if nd.status == c.PROTOTYPE)
    Wd = W + np.diag([np.inf] * n)
    nn_other = any(Y[int(np.argmin(Wd[i]))] != Y[i] for i in range(n))
    res.nontrivial = n_protos >= 3 and nn_other
    res.cell("sup", case["metric"] if not case.get("pre") else "pre", case["gclass"])
    return res


def _knn(case, res):
    X, Y, V, YV, Q = knncase.arrays(case)
    n = len(X)
    if case["max_k"] > n - 1:
        return res.reject("max_k>n-1")
    m, call = knncase.fit_model(case)
    if not call.ok:
        if is_library_domain_error(call.exc):
            return res.reject("library-domain-error")
        res.see("knn_fit_aborted:" + type(call.exc).__name__)
        return res.reject("knn-fit-aborted")
    nodes = m.subgraph.nodes
    res.see("knn_resub_checked")
    for i in range(n):
        if nodes[i].predicted_label != int(Y[i]):
            res.violate("resubstitution", "C04/train-label-wrong/knn",
                        f"KNN-supervised (max_k={case['max_k']}, best_k={m.subgraph.best_k}): training sample {i} has label {int(Y[i])} but was assigned {nodes[i].predicted_label}")
            return res
    dup = len({tuple(r) for r in case["X"]}) < n
    tied = case["gclass"] in ("G2", "G3", "G4", "G5")
    if dup or tied:
        res.see("knn_tied_or_duplicate_cases")
    res.nontrivial = n >= 5 and (dup or tied or case["max_k"] >= 2)
    res.cell("knn", case["metric"], case["gclass"], "k" + str(min(case["max_k"], 5)))
    return res


def shrink(case):
    if case["part"] == "sup":
        for c in shrink_rows(case):
            yield c
    else:
        n = len(case["X"])
        for i in range(n - 1, -1, -1):
            Y2 = case["Y"][:i] + case["Y"][i + 1:]
            if len(set(Y2)) < 2 or sorted(set(Y2)) != list(range(len(set(Y2)))) or case["max_k"] > n - 2:
                continue
            yield {**case, "X": case["X"][:i] + case["X"][i + 1:], "Y": Y2, "YV": [min(v, max(Y2)) for v in case["YV"]]}


def extra(tier, seed, shard=0, nshards=1):
    """One designed tie-free set whose optimum path is ~1100 samples deep (one class on a line with random, decreasing gaps): every
    training sample must still get its own label back from the forest and from predict(X_train)."""
    if shard != min(1, nshards - 1):
        return []
    rng = np.random.default_rng([seed, 404])
    N = 1100
    gaps = 1.0 + np.sort(rng.random(N))[::-1]
    xs = np.concatenate([[0.0], np.cumsum(gaps)])
    xs = np.concatenate([xs, xs[-1] + np.array([0.83, 1.71])])
    case = {"part": "sup", "model": "supervised", "metric": "euclidean", "gclass": "deep-chain", "X": [[float(v)] for v in xs],
            "Y": [0] * (N - 2) + [1] * 5, "Q": [[float(xs[0] - 0.4)]], "pre": None}
    r = check(case)
    if not r.violations and not r.rejected:
        r.see("deep_path_case")
        return [({"deep_chain": {"n": len(xs), "depth": N - 3}}, r)]
    return [(case, r)]

