"""C02 — prototypes are exactly the class-boundary endpoints of a minimum spanning tree."""
from __future__ import annotations

import numpy as np

from .. import gen, refs, supcase
from ..base import Result
from ..snap import is_library_domain_error, tie_free
from .c01 import shrink_rows

ID = "C02"
RULE = ("Same training-set generators as C01 for SupervisedOPF and SemiSupervisedOPF (prototypes from the labeled samples only). "
        "Hook oracle: the Prim tree captured at the return of the prototype search is a spanning tree, its sorted weight multiset equals "
        "a Kruskal MST's, prototypes == endpoints of its cross-class arcs. Boundary oracle (no hook): tie-free weights => prototypes == "
        "cross-class endpoints of the unique MST; tied weights => must-set subset-of prototypes subset-of may-set. Plus: every class has a prototype; "
        "prototypes keep cost 0, pred NIL, own label. Non-trivial: >=2 cross-class tree arcs and >=1 same-class arc; distinct = case hash.")
ASSUMPTIONS = [
    "premise checked per case: >=2 classes, weights finite and bit-symmetric (else rejected)",
    "the must/may sandwich on tied weights is evaluated for n<=48 (cost O(n^4) worst case); larger tied cases are decided by the hook oracle alone",
    "the private hook point SupervisedOPF._find_prototypes may be renamed by a refactoring: then the hook oracle is inconclusive and the boundary oracle alone decides",
]
BUDGET = {
    "quick": {"cases": 9600, "seconds": 90, "shards": 8},
    "thorough": {"cases": 160000, "seconds": 900, "shards": 16},
}
REQUIRED_OBS = ["signed_weight_cases", "exhaustive_small_graph_cases", "hook_tree_checked", "boundary_tiefree_checked", "boundary_sandwich_checked", "semi_cases", "mst_multiset_compared"]
MIN_NONTRIVIAL = 100


def generate(rng, tier, idx):
    semi = idx % 3 == 2
    metrics = gen.SYMMETRIC_DISSIMILARITIES if idx % 2 else gen.SAFE_METRICS
    return supcase.gen_case(rng, tier, semi=semi, metrics=metrics, force_tie_free=(idx % 5 == 0), nq=1, extra_kinds=("MS", "MS"))


def check(case):
    import opfython.utils.constants as c

    res = Result()
    if len(set(case["Y"])) < 2:
        return res.reject("single-class")
    o = supcase.run_case(case)
    if not o.fit.ok:
        if is_library_domain_error(o.fit.exc):
            return res.reject("library-domain-error")
        res.violate("exception", f"C02/exception/fit/{type(o.fit.exc).__name__}", f"fit raised at {o.fit.where}: {o.fit.tb[-400:]}")
        return res
    L = o.L
    nodes = o.model.subgraph.nodes
    Wall = supcase.weights(o)
    W = Wall[:L, :L]
    why = supcase.sane_weights(W)
    if why == "weights-negative" and (case.get("pre") or {}).get("kind") == "MS":
        why = None                      # C02 quantifies over all symmetric weight assignments, signed ones included
        res.see("signed_weight_cases")
    if why:
        return res.reject(why)
    Y = [int(y) for y in case["Y"]]
    protos = {i for i in range(len(nodes)) if nodes[i].status == c.PROTOTYPE}
    if case["model"] == "semi":
        res.see("semi_cases")
        bad = [i for i in protos if i >= L]
        if bad:
            res.violate("prototypes", "C02/unlabeled-prototype", f"unlabeled nodes {bad} are flagged PROTOTYPE")
            return res

    # (5) every class has a prototype; prototypes keep cost 0 / pred NIL / own label
    missing = sorted(set(Y) - {Y[i] for i in protos})
    if missing:
        res.violate("prototypes", "C02/class-without-prototype", f"classes {missing} have no prototype; prototypes={sorted(protos)}")
        return res
    for p in protos:
        nd = nodes[p]
        if nd.cost != 0 or nd.pred != c.NIL or nd.predicted_label != Y[p]:
            res.violate("prototypes", "C02/prototype-state", f"prototype {p}: cost={nd.cost!r} pred={nd.pred} predicted_label={nd.predicted_label} own label={Y[p]}")
            return res

    # hook oracle on the tree Prim built
    n_cross = n_same = 0
    if o.prim is not None:
        pred = o.prim["pred"][:L]
        if not refs.is_spanning_tree(pred):
            res.violate("mst", "C02/tree-not-spanning", f"predecessor map after the prototype search is not a spanning tree: {pred}")
            return res
        tw = sorted(float(W[pred[q], q]) for q in range(L) if pred[q] != -1)
        ref = refs.mst_weight_multiset(W)
        res.see("mst_multiset_compared")
        if tw != ref:
            k = next(i for i in range(len(ref)) if tw[i] != ref[i])
            res.violate("mst", "C02/tree-not-minimum",
                        f"sorted arc weights of the built tree differ from a minimum spanning tree's at rank {k}: {tw[k]!r} vs {ref[k]!r}")
            return res
        ends = set()
        for q in range(L):
            if pred[q] != -1:
                if Y[q] != Y[pred[q]]:
                    ends.update((q, pred[q]))
                    n_cross += 1
                else:
                    n_same += 1
        res.see("hook_tree_checked")
        if ends != protos:
            res.violate("prototypes", "C02/prototypes-not-cross-class-endpoints",
                        f"prototypes {sorted(protos)} != endpoints of the cross-class arcs of the built tree {sorted(ends)}")
            return res
    else:
        res.see("hook_missing")

    # boundary oracle (no hook)
    if tie_free(W):
        uf = refs.UF(L)
        ends = set()
        for w, a, b in refs.sorted_arcs(W):
            if uf.union(a, b) and Y[a] != Y[b]:
                ends.update((a, b))
        res.see("boundary_tiefree_checked")
        if ends != protos:
            res.violate("prototypes", "C02/prototypes-not-cross-class-endpoints",
                        f"tie-free weights: prototypes {sorted(protos)} != cross-class endpoints of the unique MST {sorted(ends)}")
            return res
    elif L <= 48:
        may, must = refs.cross_arc_sets(W, Y)
        res.see("boundary_sandwich_checked")
        if not (must <= protos):
            res.violate("prototypes", "C02/prototype-missing", f"endpoints {sorted(must - protos)} of cross-class arcs lying in EVERY MST are not prototypes")
            return res
        if not (protos <= may):
            res.violate("prototypes", "C02/prototype-spurious", f"prototypes {sorted(protos - may)} are not an endpoint of any cross-class arc of ANY MST")
            return res
        if must != may:
            res.see("sandwich_strict")
    res.nontrivial = n_cross >= 2 and n_same >= 1
    res.cell(case["model"], case["metric"] if not case.get("pre") else "pre:" + case["gclass"], case["gclass"], "tiefree" if tie_free(W) else "tied")
    return res


def shrink(case):
    yield from shrink_rows(case)


def extra(tier, seed, shard=0, nshards=1):
    """Bounded-exhaustive pass: every weight matrix over a small alphabet x every labelling on 3..5 nodes (all tie patterns),
    fed as pre-computed distances with a reversed index array; each is judged by the same oracle as the random cases."""
    out = []
    agg = Result()
    n_cases = 0
    for n, D, Y in gen.exhaustive_small_graphs(tier, shard, nshards):
        I = list(range(n))[::-1]
        Dp = D[np.ix_(I, I)]            # matrix row I[i] holds sample i: the matrix is permuted consistently with the index array
        DD = np.zeros((n, n))
        for a in range(n):
            for b in range(n):
                DD[I[a], I[b]] = D[a, b]
        case = {"model": "supervised", "metric": "log_squared_euclidean", "gclass": "EXH", "pattern": "exh",
                "X": [[float(i)] for i in I], "Y": Y, "U": [], "Q": [[float(q)] for q in range(n)],
                "pre": {"D": DD.tolist(), "I": I, "IQ": list(range(n)), "kind": "EXH"}, "prefit": None}
        r = check(case)
        n_cases += 1
        if r.violations:
            out.append((case, r))
        else:
            agg.obs.update(r.obs)
    agg.see("exhaustive_small_graph_cases", n_cases)
    agg.cell("exhaustive-small-graphs", tier)
    out.append(({"exhaustive_small_graphs": {"tier": tier, "cases_this_shard": n_cases}}, agg))
    return out
