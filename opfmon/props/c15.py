"""C15 — semi-supervised training extends the optimum-path forest to unlabeled samples."""
from __future__ import annotations

import numpy as np

from .. import gen, supcase
from ..base import Result
from ..snap import build_model, forest_snapshot, is_library_domain_error, safe_call, snapshot_diff
from .c01 import judge_forest, shrink_rows

ID = "C15"
RULE = ("SemiSupervisedOPF on labeled sets from the C01 generators (blobs+bridging chains, duplicates, lattices, ...) with unlabeled sets of size "
        "0,1,2,L/2,L,2L drawn from the same generator (so they bridge classes / duplicate labeled points); all symmetric non-negative metrics and "
        "pre-computed matrices. Judged: C01's optimum-path oracle over ALL L+U nodes with the implementation's prototypes, prototypes only among "
        "labeled nodes, every node conquered exactly once, assigned label (and the label attribute of unlabeled nodes) == true label of the root "
        "prototype; with U empty the forest snapshot and predictions equal SupervisedOPF's. Non-trivial: an unlabeled node is the predecessor of a "
        "labeled one, or U=0 comparison with n>=4; distinct = case hash.")
ASSUMPTIONS = [
    "premise checked per case: >=2 classes; all (L+U)^2 weights finite, non-negative, bit-symmetric",
    "pre-computed layout: unlabeled row i sits at matrix index L+i (the only layout the API can express)",
    "with U empty the 'label' attribute is not compared with SupervisedOPF (the semi-supervised code overwrites it with the propagated label by design)",
]
BUDGET = {
    "quick": {"cases": 8000, "seconds": 90, "shards": 8},
    "thorough": {"cases": 200000, "seconds": 900, "shards": 16},
}
REQUIRED_OBS = ["cost_compared", "unlabeled_pred_of_labeled", "u0_compared_with_supervised", "unlabeled_label_checked", "pre_computed_cases"]
MIN_NONTRIVIAL = 60


def generate(rng, tier, idx):
    metrics = gen.SYMMETRIC_DISSIMILARITIES if idx % 2 else gen.SAFE_METRICS
    c = supcase.gen_case(rng, tier, semi=True, metrics=metrics, max_n=30 if tier == "quick" else 60)
    if idx % 4 == 0:
        c["U"] = []
        c["empty_U_as"] = ["2d", "list", "array1d", "2d"][(idx // 4) % 4]
        if c.get("prefit"):
            c["prefit"]["U"] = c["prefit"]["U"] or c["prefit"]["X"][:2]        # the earlier fit of the same object HAD unlabeled rows
    return c


def check(case):
    import opfython.utils.constants as c

    res = Result()
    if len(set(case["Y"])) < 2:
        return res.reject("single-class")
    o = supcase.run_case(case)
    if not o.fit.ok:
        if is_library_domain_error(o.fit.exc):
            return res.reject("library-domain-error")
        res.violate("exception", f"C15/exception/fit/{type(o.fit.exc).__name__}", f"fit raised at {o.fit.where}: {o.fit.tb[-400:]}")
        return res
    L, U = o.L, len(o.U)
    nodes = o.model.subgraph.nodes
    if len(nodes) != L + U:
        res.violate("structure", "C15/node-count", f"{len(nodes)} nodes after fit, expected L+U = {L}+{U}")
        return res
    W = supcase.weights(o)
    why = supcase.sane_weights(W)
    if why:
        return res.reject(why)
    if case.get("pre"):
        res.see("pre_computed_cases")
    protos = [i for i in range(L + U) if nodes[i].status == c.PROTOTYPE]
    if any(p >= L for p in protos):
        res.violate("prototypes", "C15/unlabeled-prototype", f"prototypes {protos} include unlabeled nodes (>= {L})")
        return res
    true = [int(y) for y in case["Y"]] + [None] * U
    depth = judge_forest(res, o, W, "C15", true_labels=true)
    if res.violations or res.rejected:
        return res
    # unlabeled nodes: the label attribute carries the propagated label
    for i in range(L, L + U):
        res.see("unlabeled_label_checked")
        if nodes[i].label != nodes[i].predicted_label:
            res.violate("label", "C15/unlabeled-label-not-written", f"unlabeled node {i}: label attribute {nodes[i].label} != propagated label {nodes[i].predicted_label}")
            return res
    # labeled nodes too: the anchored mechanism is "competition identical to supervised plus label := propagated label", so after
    # training a sample *carries* (in both label attributes) the label of its root prototype
    for i in range(L):
        if nodes[i].pred != c.NIL and nodes[i].label != nodes[i].predicted_label:
            res.violate("label", "C15/labeled-sample-keeps-foreign-label",
                        f"labeled node {i} was conquered through {nodes[i].pred} and assigned label {nodes[i].predicted_label} but its label attribute still reads {nodes[i].label}")
            return res
    bridge = any(nodes[i].pred >= L for i in range(L) if nodes[i].pred != c.NIL)
    if bridge:
        res.see("unlabeled_pred_of_labeled")
    if any(nodes[i].pred != c.NIL and nodes[i].pred >= L for i in range(L, L + U)):
        res.see("unlabeled_pred_of_unlabeled")
    if U == 0:
        sup_case = {**case, "model": "supervised"}
        s = supcase.run_case(sup_case, with_prim_hook=False, with_heap_hooks=False)
        if s.fit.ok:
            fields = ("cost", "pred", "predicted_label", "status", "idx")
            d = snapshot_diff(forest_snapshot(o.model, fields, with_knn=False), forest_snapshot(s.model, fields, with_knn=False), fields)
            res.see("u0_compared_with_supervised")
            if d:
                res.violate("u0", "C15/empty-unlabeled-differs-from-supervised", f"U empty: semi-supervised forest differs from supervised: {d}")
                return res
            if case.get("pre"):
                a = safe_call(o.model.predict, o.Q.copy(), o.IQ.copy())
                b = safe_call(s.model.predict, o.Q.copy(), o.IQ.copy())
            else:
                a = safe_call(o.model.predict, o.Q.copy())
                b = safe_call(s.model.predict, o.Q.copy())
            if a.ok and b.ok and [int(v) for v in a.value] != [int(v) for v in b.value]:
                res.violate("u0", "C15/empty-unlabeled-differs-from-supervised", f"U empty: predictions differ {list(a.value)} vs {list(b.value)}")
                return res
    res.nontrivial = bool(bridge or (U == 0 and L >= 4))
    res.cell(case["metric"] if not case.get("pre") else "pre:" + case["gclass"], case["gclass"], "U0" if U == 0 else ("U<L" if U < L else "U>=L"))
    return res


def shrink(case):
    yield from shrink_rows(case)
