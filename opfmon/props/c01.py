"""C01 — supervised training yields an optimum-path forest under the max-arc cost."""
from __future__ import annotations

import numpy as np

from .. import gen, refs, supcase
from ..base import Result

ID = "C01"
RULE = ("Training sets from generators G1..G7 (Gaussian, lattice with massive ties, rounded, duplicate rows, collinear, blobs+bridges, "
        "extreme scales) x 5 label patterns, n=2..40 (quick) / ..110 (thorough), d=1..6, under every symmetric non-negative metric of the "
        "table on domain-mapped data and under pre-computed matrices M1..M4 with shuffled index arrays. After the real fit: every cost == "
        "union-find sweep == value iteration (exact), predecessor chains reach a prototype, cost(child)==max(cost(parent),w), label == "
        "root's true label, conquest order is a permutation with non-decreasing cost. Non-trivial: n>=4, some path with >=2 arcs and "
        ">=1 decrease-key on a queued element; distinct = case hash.")
ASSUMPTIONS = [
    "the prototype set is taken from the implementation (C02 judges it)",
    "premise checked per case: >=2 classes; weights finite, non-negative, bit-symmetric (otherwise the case is rejected and counted)",
    "weights are re-evaluated by the harness on copies in the code's argument order; float64 features",
]
BUDGET = {
    "quick": {"cases": 9600, "seconds": 90, "shards": 8},
    "thorough": {"cases": 200000, "seconds": 900, "shards": 16},
}
REQUIRED_OBS = ["exhaustive_small_graph_cases", "cost_compared", "decrease_key_on_queued", "path_len>=2", "pre_computed_cases", "tied_weight_cases", "chains_followed"]
MIN_NONTRIVIAL = 100
NIL = -1


def generate(rng, tier, idx):
    metrics = gen.SYMMETRIC_DISSIMILARITIES if idx % 2 else gen.SAFE_METRICS
    return supcase.gen_case(rng, tier, metrics=metrics)


def judge_forest(res, o, W, key_prefix="C01", n_labeled=None, true_labels=None):
    """Shared with C15: judge the fitted forest of o.model against the reference on weight matrix W."""
    import opfython.utils.constants as c

    sg = o.model.subgraph
    nodes = sg.nodes
    n = len(nodes)
    protos = [i for i in range(n) if nodes[i].status == c.PROTOTYPE]
    if not protos:
        res.violate("structure", f"{key_prefix}/no-prototype", f"no prototype after fit on {n} samples with >=2 classes")
        return
    Vk = refs.minimax_kruskal(W, set(protos))
    Vi = refs.minimax_iterate(W, protos)
    if any(Vk[i] != Vi[i] for i in range(n)):
        res.see("oracle_self_disagreement")
        res.reject("oracle-self-check-failed")
        return
    cost = [nodes[i].cost for i in range(n)]
    res.see("cost_compared", n)
    for i in range(n):
        if not (cost[i] == Vk[i]):
            res.violate("optimality", f"{key_prefix}/cost-not-optimal",
                        f"node {i}: recorded cost {float(cost[i])!r} but optimum max-arc path cost from prototypes {protos} is {Vk[i]!r}")
            return
    true = true_labels
    maxdepth = 0
    for i in range(n):
        if i in protos:
            if nodes[i].pred != NIL or cost[i] != 0:
                res.violate("structure", f"{key_prefix}/prototype-state", f"prototype {i}: pred={nodes[i].pred} cost={cost[i]!r}")
                return
            continue
        a, steps = i, 0
        while nodes[a].pred != NIL:
            p = nodes[a].pred
            if not (cost[a] == max(cost[p], W[p, a])):
                res.violate("structure", f"{key_prefix}/link-recurrence",
                            f"link {p}->{a}: cost(child)={float(cost[a])!r} but max(cost(parent)={float(cost[p])!r}, w={W[p, a]!r})")
                return
            a = p
            steps += 1
            if steps > n:
                res.violate("structure", f"{key_prefix}/pred-cycle", f"predecessor chain from node {i} cycles")
                return
        res.see("chains_followed")
        maxdepth = max(maxdepth, steps)
        if a not in protos:
            res.violate("structure", f"{key_prefix}/chain-ends-at-non-prototype", f"chain from node {i} ends at {a}, not a prototype")
            return
        if nodes[i].predicted_label != true[a]:
            res.violate("label", f"{key_prefix}/label-not-roots",
                        f"node {i}: assigned label {nodes[i].predicted_label}, true label of its root prototype {a} is {true[a]}")
            return
    for p in protos:
        if nodes[p].predicted_label != true[p]:
            res.violate("label", f"{key_prefix}/label-not-roots", f"prototype {p}: assigned label {nodes[p].predicted_label} != own label {true[p]}")
            return
    order = [int(i) for i in sg.idx_nodes]
    if sorted(order) != list(range(n)):
        res.violate("order", f"{key_prefix}/conquest-order-not-permutation", f"conquest order {order[:30]} is not a permutation of 0..{n - 1}")
        return
    oc = [cost[i] for i in order]
    if any(oc[k] > oc[k + 1] for k in range(n - 1)):
        res.violate("order", f"{key_prefix}/conquest-order-not-sorted", f"costs along the conquest order decrease: {[float(v) for v in oc][:30]}")
        return
    if maxdepth >= 2:
        res.see("path_len>=2")
    res.see("max_depth_" + str(min(maxdepth, 6)))
    return maxdepth


def check(case):
    res = Result()
    o = supcase.run_case(case)
    if len(set(case["Y"])) < 2:
        return res.reject("single-class")
    if not o.fit.ok:
        from ..snap import is_library_domain_error
        if is_library_domain_error(o.fit.exc):
            return res.reject("library-domain-error")
        # decide whether the input was in the premise before blaming the code
        res.violate("exception", f"C01/exception/fit/{type(o.fit.exc).__name__}", f"fit raised at {o.fit.where}: {o.fit.tb[-400:]}")
        return res
    W = supcase.weights(o)
    why = supcase.sane_weights(W)
    if why:
        return res.reject(why)
    n = len(W)
    iu = np.triu_indices(n, 1)
    tied = len(np.unique(W[iu])) < len(W[iu])
    if tied:
        res.see("tied_weight_cases")
    if case.get("pre"):
        res.see("pre_computed_cases")
    depth = judge_forest(res, o, W, "C01", true_labels=[int(y) for y in case["Y"]])
    dk = o.rec.count("heap_update_gray")
    if dk:
        res.see("decrease_key_on_queued", dk)
    for msg in o.rec.of("heap_live_violation"):
        res.see("heap_live_violation_seen")
        res.note = msg
    res.nontrivial = bool(n >= 4 and depth is not None and depth >= 2 and dk >= 1)
    res.cell(case["metric"] if not case.get("pre") else "pre:" + case["gclass"], case["gclass"], case["pattern"], "tied" if tied else "tiefree")
    return res


def shrink(case):
    yield from shrink_rows(case)


def shrink_rows(case):
    """Drop training rows / queries / unlabeled rows (keeps >= 2 classes)."""
    n = len(case["X"])
    for i in range(n - 1, -1, -1):
        Y2 = case["Y"][:i] + case["Y"][i + 1:]
        if len(set(Y2)) < 2:
            continue
        c2 = {**case, "X": case["X"][:i] + case["X"][i + 1:], "Y": Y2}
        if case.get("pre"):
            c2["pre"] = {**case["pre"], "I": case["pre"]["I"][:i] + case["pre"]["I"][i + 1:]}
            if case["model"] == "semi":
                continue   # semi pre-computed layout ties unlabeled indices to len(X): do not shrink rows there
        yield c2
    if len(case.get("Q", [])) > 1:
        for i in range(len(case["Q"]) - 1, -1, -1):
            c2 = {**case, "Q": case["Q"][:i] + case["Q"][i + 1:]}
            if case.get("pre"):
                c2["pre"] = {**case["pre"], "IQ": case["pre"]["IQ"][:i] + case["pre"]["IQ"][i + 1:]}
            yield c2
    if len(case.get("U", [])) > 0 and not case.get("pre"):
        for i in range(len(case["U"]) - 1, -1, -1):
            yield {**case, "U": case["U"][:i] + case["U"][i + 1:]}


def extra(tier, seed, shard=0, nshards=1):
    """Bounded-exhaustive pass: every weight matrix over a small alphabet x every labelling on 3..5 nodes (all tie patterns),
    fed as pre-computed distances with a reversed index array; each is judged by the same oracle as the random cases."""
    out = []
    agg = Result()
    n_cases = 0
    for n, D, Y in gen.exhaustive_small_graphs(tier, shard, nshards):
        I = list(range(n))[::-1]
        Dp = D[np.ix_(I, I)]            # matrix row I[i] holds sample i: the matrix is permuted consistently with the index array
        DD = np.zeros((n, n))
        for a in range(n):
            for b in range(n):
                DD[I[a], I[b]] = D[a, b]
        case = {"model": "supervised", "metric": "log_squared_euclidean", "gclass": "EXH", "pattern": "exh",
                "X": [[float(i)] for i in I], "Y": Y, "U": [], "Q": [[float(q)] for q in range(n)],
                "pre": {"D": DD.tolist(), "I": I, "IQ": list(range(n)), "kind": "EXH"}, "prefit": None}
        r = check(case)
        n_cases += 1
        if r.violations:
            out.append((case, r))
        else:
            agg.obs.update(r.obs)
    agg.see("exhaustive_small_graph_cases", n_cases)
    agg.cell("exhaustive-small-graphs", tier)
    out.append(({"exhaustive_small_graphs": {"tier": tier, "cases_this_shard": n_cases}}, agg))
    return out
