"""C10 — pre-computed distances are equivalent to computing the metric on the fly."""
from __future__ import annotations

import os
import shutil
import tempfile

import numpy as np

from .. import gen
from ..base import Result
from ..metrics_table import NAMES, T
from ..snap import build_model, forest_snapshot, is_library_domain_error, safe_call, snapshot_diff

ID = "C10"
RULE = ("Datasets of N=4..24 (quick) / ..48 (thorough) rows in the metric's domain, any of the 47 metrics (asymmetric ones expose transpositions), "
        "random train/test index sets (never the identity prefix), models supervised / semi-supervised / unsupervised, file extensions .txt and "
        ".csv. The library's own pre_compute_distance writes the file; model A computes the metric on the fly on X[I], model B reads the file and "
        "gets the index arrays. Forest snapshots (cost, pred, labels, status, root, cluster, density, conquest order, best_k, density range) and "
        "predictions must be equal with ==; get_distances() must equal the metric on every ordered pair (and its min-max rescaling); then the routine rewrites the same path for another "
        "dataset of the same shape and a model built afterwards must hold the new matrix. "
        "Non-trivial: N > n_train, >=1 test row, train indices not sorted-prefix; distinct = case hash.")
RULE += (' 25% of the files live under dotted directory/file names; get_distances (plain + normalised) is judged for the file-backed model too; one designed 2100-sample model per run (offset 1e4, unit spread) whose get_distances is compared exactly on 40000 sampled ordered pairs.')
ASSUMPTIONS = [
    "KNN-supervised is outside the statement (it demands an n_train x n_train matrix)",
    "semi-supervised layouts are those its API can express: unlabeled row i is dataset row L+i, labeled indices lie outside [L, L+U)",
    "if both configurations raise the same exception type the case is counted 'both aborted' (nothing to compare)",
]
BUDGET = {
    "quick": {"cases": 6400, "seconds": 90, "shards": 8},
    "thorough": {"cases": 120000, "seconds": 900, "shards": 16},
}
REQUIRED_OBS = ["snapshots_compared", "get_distances_of_file_backed_model_checked", "big_get_distances_pairs", "dotted_path_cases", "predictions_compared", "ext:txt", "ext:csv", "model:supervised", "model:semi", "model:unsup",
                "get_distances_checked", "int16_dataset_cases", "normalised_request_first", "train_set_is_whole_file_shuffled", "asymmetric_metric_cases", "same_path_rewrite_checked"]
MIN_NONTRIVIAL = 60
FIELDS = ("cost", "pred", "predicted_label", "status", "root", "cluster_label", "density", "relevant")


def generate(rng, tier, idx):
    model = ["supervised", "semi", "unsup"][idx % 3]
    name = NAMES[(idx // 3) % len(NAMES)] if rng.random() < 0.8 else "log_squared_euclidean"
    kind = T[name][1]
    N = int(rng.integers(4, 25 if tier == "quick" else 49))
    d = int(rng.integers(1, 6))
    gc = gen.pick(rng, ["G1", "G1", "G3", "G6", "G2"])
    X = gen.to_domain(gen.make_dataset(rng, N, d, gc), kind)
    Y = gen.make_labels(rng, X, gen.pick(rng, ["random", "blob", "alternate"]))
    ext = "txt" if rng.random() < 0.5 else "csv"
    n_tr = int(rng.integers(2, N)) if rng.random() < 0.85 else N          # sometimes EVERY row of the file, in a shuffled order
    if model == "semi":
        L = int(rng.integers(2, max(3, N - 1)))
        U = int(rng.integers(0, N - L + 1))
        allowed = [i for i in range(N) if not (L <= i < L + U)]
        # exactly L labeled rows whose dataset indices avoid [L, L+U)
        if len(allowed) < L:
            U = 0
            allowed = list(range(N))
        I_tr = rng.permutation(allowed)[:L]
        n_u = U
    else:
        I_tr = rng.permutation(N)[:n_tr]
        n_u = 0
    int16 = False
    if rng.random() < 0.25 and gc == "G2":
        X = np.round(X)
        int16 = True                       # the dataset is an int16 matrix: file and on-the-fly path must see the SAME dtype
    if len(I_tr) > 1 and list(I_tr) == sorted(I_tr):
        I_tr = I_tr[::-1]
    I_te = rng.integers(0, N, size=int(rng.integers(1, 9)))
    Ytr = Y[I_tr]
    _, Ytr = np.unique(Ytr, return_inverse=True)
    if model != "unsup" and Ytr.max() == 0:
        Ytr[0] = 1
    k_hi = max(1, len(I_tr) - 1)
    max_k = int(rng.integers(1, min(k_hi, 5) + 1))
    return {"model": model, "metric": name, "X": X.tolist(), "I_tr": [int(i) for i in I_tr], "Y_tr": [int(v) for v in Ytr],
            "n_unlabeled": int(n_u), "I_te": [int(i) for i in I_te], "ext": ext, "dotted_path": bool(rng.random() < 0.25), "min_k": int(rng.integers(1, max_k + 1)), "max_k": max_k,
            "gclass": gc, "norm_first": bool(rng.random() < 0.5), "int16": int16}


def _fit(case, m, X, Ytr, I_tr, use_index):
    L = len(I_tr)
    if case["model"] == "supervised":
        return safe_call(m.fit, X[I_tr].copy(), Ytr.copy(), I_tr.copy() if use_index else None)
    if case["model"] == "semi":
        U = X[L:L + case["n_unlabeled"]].copy()
        return safe_call(m.fit, X[I_tr].copy(), Ytr.copy(), U, I_tr.copy() if use_index else None)
    return safe_call(m.fit, X[I_tr].copy(), Ytr.copy(), I_tr.copy() if use_index else None)


def check(case):
    import opfython.math.general as g
    from opfython.math.distance import DISTANCES

    res = Result()
    X = np.array(case["X"], dtype=float)
    if case.get("int16"):
        X = X.astype(np.int16)
        res.see("int16_dataset_cases")
    I_tr = np.array(case["I_tr"], dtype=int)
    I_te = np.array(case["I_te"], dtype=int)
    Ytr = np.array(case["Y_tr"], dtype=int)
    name, kind = case["metric"], case["model"]
    if kind != "unsup" and len(set(case["Y_tr"])) < 2:
        return res.reject("single-class")
    if kind == "unsup" and case["max_k"] > len(I_tr) - 1:
        return res.reject("max_k>n-1")
    tmp = tempfile.mkdtemp(prefix="c10_")
    try:
        if case.get("dotted_path"):
            os.makedirs(os.path.join(tmp, "fold.0"))
            path = os.path.join(tmp, "fold.0", "dist.v2." + case["ext"])       # dots in directory and file names: the extension is the LAST suffix
            res.see("dotted_path_cases")
        else:
            path = os.path.join(tmp, "dist." + case["ext"])
        w = safe_call(g.pre_compute_distance, X.copy(), path, name)
        if not w.ok:
            res.violate("file", f"C10/exception/pre_compute_distance/{type(w.exc).__name__}", f"pre_compute_distance raised at {w.where}")
            return res
        res.see("ext:" + case["ext"])
        res.see("model:" + kind)
        kw = {"max_k": case["max_k"], "min_k": case["min_k"]}
        A = build_model(kind, name, **kw)
        b = safe_call(build_model, kind, name, pre=path, **kw)
        if not b.ok:
            res.violate("file", f"C10/cannot-load-own-file/{case['ext']}",
                        f"the model cannot read the .{case['ext']} file the library's pre_compute_distance wrote: {type(b.exc).__name__}: {str(b.exc)[:200]} at {b.where}")
            return res
        B = b.value
        # the file must hold metric(X[i], X[j]) exactly
        D = B.pre_distances
        fn = DISTANCES[name]
        if D is None or np.shape(D) != (len(X), len(X)):
            res.violate("file", "C10/matrix-shape", f"loaded matrix has shape {np.shape(D)}, dataset has {len(X)} rows")
            return res
        fa = _fit(case, A, X, Ytr, I_tr, False)
        fb = _fit(case, B, X, Ytr, I_tr, True)
        if fa.ok != fb.ok or (not fa.ok and type(fa.exc) is not type(fb.exc)):
            res.violate("equivalence", "C10/one-configuration-aborts",
                        f"{kind}/{name}: on-the-fly fit {'ok' if fa.ok else type(fa.exc).__name__ + ' at ' + str(fa.where)}, pre-computed fit {'ok' if fb.ok else type(fb.exc).__name__ + ' at ' + str(fb.where)}")
            return res
        if not fa.ok:
            if is_library_domain_error(fa.exc):
                return res.reject("library-domain-error")
            res.see("both_aborted:" + type(fa.exc).__name__)
            return res.reject("both-aborted")
        sa, sb = forest_snapshot(A, FIELDS), forest_snapshot(B, FIELDS)
        res.see("snapshots_compared")
        diff = snapshot_diff(sa, sb, FIELDS)
        if diff:
            res.violate("equivalence", "C10/forest-differs", f"{kind}/{name}/.{case['ext']}: on-the-fly vs pre-computed: {diff}")
            return res
        pa = safe_call(A.predict, X[I_te].copy())
        pb = safe_call(B.predict, X[I_te].copy(), I_te.copy())
        if pa.ok != pb.ok:
            res.violate("equivalence", "C10/one-configuration-aborts", f"{kind}/{name}: predict on-the-fly ok={pa.ok} pre-computed ok={pb.ok} ({pa.where or pb.where})")
            return res
        if pa.ok:
            res.see("predictions_compared")
            va = [list(map(int, v)) for v in pa.value] if kind == "unsup" else list(map(int, pa.value))
            vb = [list(map(int, v)) for v in pb.value] if kind == "unsup" else list(map(int, pb.value))
            if va != vb:
                res.violate("equivalence", "C10/predictions-differ", f"{kind}/{name}/.{case['ext']}: predictions on-the-fly {va} vs pre-computed {vb} for test rows {case['I_te']}")
                return res
        # get_distances of the fitted on-the-fly model
        if case.get("norm_first"):
            safe_call(A.get_distances, True)          # call order: a normalised request BEFORE the plain one must not change the latter
            res.see("normalised_request_first")
        gd = safe_call(A.get_distances)
        if gd.ok:
            nodes = A.subgraph.nodes
            n = len(nodes)
            ref = np.array([[float(fn(np.array(nodes[i].features), np.array(nodes[j].features))) for j in range(n)] for i in range(n)])   # copies, same dtype as the model's
            res.see("get_distances_checked")
            got = np.asarray(gd.value, dtype=float)
            if got.shape != ref.shape or not np.array_equal(got, ref, equal_nan=True):
                res.violate("get_distances", "C10/get_distances-wrong", f"{kind}/{name}: get_distances() differs from the metric on the ordered pairs of training nodes")
                return res
            if np.all(np.isfinite(ref)) and ref.max() > ref.min():
                gn = safe_call(A.get_distances, True)
                want = (ref - ref.min()) / (ref.max() - ref.min())
                if not gn.ok or not np.allclose(np.asarray(gn.value, dtype=float), want, rtol=1e-12, atol=1e-12):
                    res.violate("get_distances", "C10/get_distances-normalize-wrong", f"{kind}/{name}: get_distances(normalize=True) is not the min-max rescaling")
                    return res
                res.see("get_distances_normalized_checked")
                # the file-backed model reports the same matrices for its own training samples
                gb = safe_call(B.get_distances)
                if gb.ok and np.all(np.isfinite(np.asarray(gb.value, dtype=float))):
                    gbn = safe_call(B.get_distances, True)
                    res.see("get_distances_of_file_backed_model_checked")
                    if not np.allclose(np.asarray(gb.value, dtype=float), ref, rtol=1e-12, atol=0):
                        res.violate("get_distances", "C10/get_distances-wrong", f"{kind}/{name}: get_distances() of the model using the distance file differs from the metric on its training samples")
                        return res
                    if not gbn.ok or not np.allclose(np.asarray(gbn.value, dtype=float), want, rtol=1e-9, atol=1e-12):
                        res.violate("get_distances", "C10/get_distances-normalize-wrong",
                                    f"{kind}/{name}: get_distances(normalize=True) of the model using the distance file is not the min-max rescaling over its own training samples")
                        return res
                again = safe_call(A.get_distances)
                if not again.ok or not np.array_equal(np.asarray(again.value, dtype=float), ref, equal_nan=True):
                    res.violate("get_distances", "C10/get_distances-wrong", f"{kind}/{name}: get_distances() after a normalised request no longer equals the metric on the ordered pairs")
                    return res
        # ---- history: the routine writes ANOTHER dataset of the same shape to the SAME path; a model built afterwards must see it
        X2 = np.roll(np.asarray(X, dtype=float), 1, axis=0) * 1.25 + (0.0 if T[name][1] == "Q" else 0.125)
        w2 = safe_call(g.pre_compute_distance, X2.copy(), path, name)
        b2 = safe_call(build_model, kind, name, pre=path, **kw) if w2.ok else w2
        if not b2.ok:
            res.violate("file", f"C10/exception/second-file/{type(b2.exc).__name__}", f"second pre_compute_distance/load at the same path failed at {b2.where}")
            return res
        want2 = np.array([[float(fn(X2[i].copy(), X2[j].copy())) for j in range(len(X2))] for i in range(len(X2))])
        res.see("same_path_rewrite_checked")
        if not np.array_equal(np.asarray(b2.value.pre_distances), want2, equal_nan=True):
            stale = np.array_equal(np.asarray(b2.value.pre_distances), np.asarray(D), equal_nan=True)
            res.violate("file", "C10/stale-matrix-after-rewrite",
                        f"{kind}/{name}/.{case['ext']}: a model built after the file was rewritten for another dataset does not hold that dataset's distances"
                        + (" (it still holds the PREVIOUS matrix)" if stale else ""))
            return res
        if "s" not in T[name][2]:
            res.see("asymmetric_metric_cases")
        res.nontrivial = len(X) >= len(I_tr) and len(I_te) >= 1
        if len(X) == len(I_tr):
            res.see("train_set_is_whole_file_shuffled")
        res.cell(kind, name, case["ext"])
        return res
    finally:
        shutil.rmtree(tmp, ignore_errors=True)


def extra(tier, seed, shard=0, nshards=1):
    """One designed large model (2100 training samples, data with a large offset and a small spread): the reported distance matrix is
    compared with the metric on 40 000 sampled ordered pairs (a Gram-matrix shortcut would lose ~1e-4 relative to cancellation)."""
    if shard != min(2, nshards - 1):
        return []
    from opfython.core.subgraph import Subgraph
    from opfython.math.distance import DISTANCES

    res = Result()
    rng = np.random.default_rng([seed, 10, 2100])
    n, d = 2100, 3
    X = 1e4 + rng.normal(size=(n, d))
    name = "euclidean" if seed % 2 else "squared_euclidean"
    m = build_model("supervised", name)
    m.subgraph = Subgraph(X.copy(), np.arange(n) % 2)
    gd = safe_call(m.get_distances)
    if not gd.ok:
        res.violate("get_distances", f"C10/exception/get_distances/{type(gd.exc).__name__}", f"get_distances on {n} samples raised at {gd.where}")
        return [({"big_get_distances": {"n": n, "metric": name}}, res)]
    G = np.asarray(gd.value, dtype=float)
    fn = DISTANCES[name]
    ii, jj = rng.integers(0, n, size=40000), rng.integers(0, n, size=40000)
    bad = 0
    for a, b in zip(ii, jj):
        want = float(fn(X[a].copy(), X[b].copy()))
        if G[a, b] != want:
            bad += 1
            if bad == 1:
                first = (int(a), int(b), float(G[a, b]), want)
    res.see("big_get_distances_pairs", 40000)
    if bad:
        res.violate("get_distances", "C10/get_distances-wrong", f"supervised/{name}, {n} training samples: get_distances()[{first[0]}][{first[1]}] = {first[2]!r}, metric = {first[3]!r} ({bad} of 40000 sampled pairs differ)")
    return [({"big_get_distances": {"n": n, "metric": name}}, res)]

