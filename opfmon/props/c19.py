"""C19 — a saved and re-loaded model behaves identically to the original."""
from __future__ import annotations

import json
import os
import shutil
import subprocess
import sys
import tempfile

import numpy as np

from .. import gen
from ..base import Result
from ..metrics_table import NAMES, T
from ..snap import build_model, forest_snapshot, is_library_domain_error, safe_call, snapshot_diff

ID = "C19"
RULE = ("Cells (model kind in 4) x (metric in 47) x (on-the-fly | pre-computed matrix): fit on generated data of the metric's domain, snapshot S0 and "
        "predictions P0, save(file); the original's snapshot must still equal S0; load(file) into a freshly constructed model (default arguments) "
        "in-process and, for a sample of cases, in a FRESH interpreter: snapshot == S0, predictions on fresh queries == original's, distance "
        "option, metric behaviour on probe vectors, pre-computed matrix bytes (symmetric and asymmetric matrices), best_k and density range equal; then a "
        "second, different model of identical shape is saved to the SAME path and loaded again (stale-load history). Non-trivial: every case that fits; "
        "distinct = case hash; cells = kind x metric x mode.")
RULE += (' ~1.3% of the on-the-fly cases use 2-D patch samples (X of shape (n,h,w)); after all comparisons the original and the loaded model receive the same follow-up history (another matrix assigned, a re-fit on reversed rows, a prediction) and must agree in state and predictions.')
ASSUMPTIONS = [
    "a fit that raises is counted 'aborted' and skipped (nothing to save)",
    "the fresh-interpreter load is sampled (1 in 28 quick, 1 in 8 thorough) because each costs an interpreter start",
]
BUDGET = {
    "quick": {"cases": 1200, "seconds": 90, "shards": 8},
    "thorough": {"cases": 24000, "seconds": 900, "shards": 16},
}
REQUIRED_OBS = ["loaded_snapshot_compared", "patch_samples_cases", "follow_up_history_compared", "loaded_predictions_compared", "original_unaltered_checked", "fresh_interpreter_loads", "same_path_resave_checked", "asymmetric_matrix_cases", "state_changed_between_saves", "failed_save_checked", "twin_loads_checked", "metric_set_through_property",
                "mode:pre", "mode:fly", "kind:supervised", "kind:semi", "kind:knn", "kind:unsup"]
MIN_NONTRIVIAL = 100
KINDS = ["supervised", "semi", "knn", "unsup"]


def generate(rng, tier, idx):
    kind = KINDS[idx % 4]
    name = NAMES[(idx // 4) % len(NAMES)]
    dom = T[name][1]
    pre = bool((idx // 4 // len(NAMES)) % 2) if rng.random() < 0.8 else bool(rng.random() < 0.5)
    n, d = int(rng.integers(4, 16)), int(rng.integers(1, 5))
    nv = int(rng.integers(2, 7))
    A = gen.to_domain(gen.make_dataset(rng, n + nv, d, gen.pick(rng, ["G1", "G3", "G6"])), dom)
    X, V = A[:n], A[n:]
    Y = gen.make_labels(rng, X, gen.pick(rng, ["random", "blob"]), K=int(rng.integers(2, 4)))
    YV = rng.integers(0, int(Y.max()) + 1, size=nv)
    YV[0] = int(Y.max())
    Q = gen.to_domain(gen.make_queries(rng, A, int(rng.integers(1, 7))), dom)
    max_k = int(rng.integers(1, min(4, n - 1) + 1))
    fresh = (idx % (28 if tier == "quick" else 8)) == 5
    fn_via_property = None
    if rng.random() < 0.12:
        same_dom = [k for k in NAMES if T[k][1] == dom and k != name and k != "statistic"]
        fn_via_property = same_dom[int(rng.integers(0, len(same_dom)))] if same_dom else None
    case = {"kind": kind, "metric": name, "X": X.tolist(), "Y": Y.tolist(), "V": V.tolist(), "YV": [int(v) for v in YV], "Q": Q.tolist(),
            "max_k": max_k, "min_k": int(rng.integers(1, max_k + 1)), "pre": None, "fresh": bool(fresh),
            "fn_via_property": fn_via_property, "f32_unlabeled": bool(kind == "semi" and rng.random() < 0.3)}
    if not pre and d in (2, 4) and name in ("euclidean", "manhattan", "squared_euclidean", "chebyshev") and rng.random() < 0.7:
        case["patch"] = [d // 2, 2]          # every sample is a small 2-D patch: X has shape (n, h, w)
    if pre:
        if kind == "knn":
            N = n
            I = rng.permutation(n)
            IV = rng.integers(0, n, size=nv)
        elif kind == "semi":
            N = n + nv + 3
            allowed = [i for i in range(N) if not (n <= i < n + nv)]
            I = rng.permutation(allowed)[:n]
            IV = None
        else:
            N = n + 4
            I = rng.permutation(N)[:n]
            IV = None
        D = gen.make_matrix(rng, N, gen.pick(rng, ["M1", "M2", "M3", "MA", "MA"]))
        case["pre"] = {"D": D.tolist(), "I": [int(i) for i in I], "IV": None if IV is None else [int(i) for i in IV],
                       "IQ": [int(i) for i in rng.integers(0, N, size=len(Q))]}
    return case


def _patch(case, A):
    return A.reshape((len(A),) + tuple(case["patch"])) if case.get("patch") else A


def _fit(case, m):
    X, Y = _patch(case, np.array(case["X"], dtype=float)), np.array(case["Y"], dtype=int)
    V, YV = _patch(case, np.array(case["V"], dtype=float)), np.array(case["YV"], dtype=int)
    if case.get("f32_unlabeled") and case["kind"] == "semi":
        V = V.astype(np.float32)               # labeled float64 beside unlabeled float32 rows
    pre = case["pre"]
    I = np.array(pre["I"], dtype=int) if pre else None
    if case["kind"] == "supervised":
        return safe_call(m.fit, X, Y, I)
    if case["kind"] == "semi":
        return safe_call(m.fit, X, Y, V, I)
    if case["kind"] == "knn":
        IV = np.array(pre["IV"], dtype=int) if pre else None
        return safe_call(m.fit, X, Y, V, YV, I, IV)
    return safe_call(m.fit, X, Y, I)


def _predict(case, m):
    Q = _patch(case, np.array(case["Q"], dtype=float))
    if case["pre"]:
        return safe_call(m.predict, Q, np.array(case["pre"]["IQ"], dtype=int))
    return safe_call(m.predict, Q)


def _feat(m):
    return [(str(np.asarray(nd.features).dtype), tuple(np.shape(nd.features)), np.ascontiguousarray(nd.features).tobytes().hex()) for nd in m.subgraph.nodes]


def _plain(v):
    return [list(map(int, x)) for x in v] if isinstance(v, tuple) else list(map(int, v))


def check(case):
    from opfython.math.distance import DISTANCES

    res = Result()
    kind, name = case["kind"], case["metric"]
    tmp = tempfile.mkdtemp(prefix="c19_")
    try:
        pre_file = None
        if case["pre"]:
            pre_file = os.path.join(tmp, "d.txt")
            np.savetxt(pre_file, np.array(case["pre"]["D"], dtype=float))
        m = build_model(kind, name, pre=pre_file, max_k=case["max_k"], min_k=case["min_k"])
        if case.get("fn_via_property") and not case["pre"]:
            # the metric function replaced through the public property: the name no longer tells which function is in use
            m.distance_fn = DISTANCES[case["fn_via_property"]]
            res.see("metric_set_through_property")
        f = _fit(case, m)
        if not f.ok:
            if is_library_domain_error(f.exc):
                return res.reject("library-domain-error")
            res.see("fit_aborted:" + type(f.exc).__name__)
            return res.reject("fit-aborted")
        S0 = forest_snapshot(m)
        p0 = _predict(case, m)
        S0 = forest_snapshot(m)          # after predict: supervised predict flags relevance; this is the state that is saved
        pkl = os.path.join(tmp, "model.pkl")
        s = safe_call(m.save, pkl)
        if not s.ok:
            res.violate("save", f"C19/exception/save/{type(s.exc).__name__}", f"{kind}/{name}: save raised at {s.where}: {str(s.exc)[:200]}")
            return res
        res.see("original_unaltered_checked")
        d = snapshot_diff(forest_snapshot(m), S0)
        if d:
            res.violate("save", "C19/save-alters-original", f"{kind}/{name}: saving changed the original model: {d}")
            return res
        # saving into a folder that does not exist fails - and must leave the original as it was
        bad = safe_call(m.save, os.path.join(tmp, "no-such-folder", "m.pkl"))
        if not bad.ok:
            res.see("failed_save_checked")
            d = snapshot_diff(forest_snapshot(m), S0)
            pchk = _predict(case, m)
            if d or (p0.ok and (not pchk.ok or _plain(pchk.value) != _plain(p0.value))):
                res.violate("save", "C19/failed-save-alters-original",
                            f"{kind}/{name}: after a save that raised {type(bad.exc).__name__} the original model changed: {d or 'predictions differ / predict raises ' + str(pchk.where)}")
                return res
            S0 = forest_snapshot(m)
        m2 = build_model(kind)                      # freshly constructed, default arguments
        l = safe_call(m2.load, pkl)
        if not l.ok:
            res.violate("load", f"C19/exception/load/{type(l.exc).__name__}", f"{kind}/{name}: load raised at {l.where}: {str(l.exc)[:200]}")
            return res
        res.see("loaded_snapshot_compared")
        if _feat(m2) != _feat(m):
            k = next(i for i, (a, b) in enumerate(zip(_feat(m2), _feat(m))) if a != b)
            res.violate("load", "C19/loaded-forest-differs", f"{kind}/{name}: node {k}'s stored features differ after load (dtype/bytes {_feat(m2)[k][0]} vs {_feat(m)[k][0]})")
            return res
        d = snapshot_diff(forest_snapshot(m2), S0)
        if d:
            res.violate("load", "C19/loaded-forest-differs", f"{kind}/{name}: loaded model's forest differs from the original: {d}")
            return res
        if m2.distance != name or bool(m2.pre_computed_distance) != bool(case["pre"]):
            res.violate("load", "C19/loaded-configuration-differs", f"{kind}/{name}: loaded distance={m2.distance!r} pre_computed={m2.pre_computed_distance}")
            return res
        if case["pre"] and not (m2.pre_distances is not None and np.array_equal(m2.pre_distances, m.pre_distances)):
            res.violate("load", "C19/loaded-configuration-differs", f"{kind}/{name}: loaded pre-computed matrix differs")
            return res
        rng = np.random.default_rng(len(case["X"]))
        x, y = gen.dom_vec(rng, T[name][1], 4), gen.dom_vec(rng, T[name][1], 4)
        a, b = safe_call(m2.distance_fn, x.copy(), y.copy()), safe_call(DISTANCES[name], x.copy(), y.copy())
        if not (case.get("fn_via_property") and not case["pre"]) and (a.ok != b.ok or (a.ok and float(a.value).hex() != float(b.value).hex())):
            res.violate("load", "C19/loaded-metric-differs", f"{kind}/{name}: loaded model's distance_fn disagrees with DISTANCES[{name!r}] on a probe pair")
            return res
        if m2.distance_fn is DISTANCES[name]:
            res.see("distance_fn_identical_object")
        if case.get("fn_via_property") and not case["pre"]:
            a, b = safe_call(m2.distance_fn, x.copy(), y.copy()), safe_call(m.distance_fn, x.copy(), y.copy())
            if a.ok != b.ok or (a.ok and float(a.value).hex() != float(b.value).hex()):
                res.violate("load", "C19/loaded-metric-differs", f"{kind}: the original used a metric set through the distance_fn property ({case['fn_via_property']}); the loaded model evaluates another one")
                return res
        p2 = _predict(case, m2)
        if p0.ok != p2.ok:
            res.violate("load", "C19/loaded-predictions-differ", f"{kind}/{name}: predict ok={p0.ok} on the original but ok={p2.ok} on the loaded model ({p2.where or p0.where})")
            return res
        if p0.ok:
            res.see("loaded_predictions_compared")
            if _plain(p0.value) != _plain(p2.value):
                res.violate("load", "C19/loaded-predictions-differ", f"{kind}/{name}: original predicts {_plain(p0.value)}, loaded model {_plain(p2.value)}")
                return res
        # ---- history: the SAME model changes state in place (relevance flags by another predict / label propagation) and is saved
        # again: the file must hold the state at the time of the second save
        if kind == "unsup":
            safe_call(m.propagate_labels)
        else:
            Xtr = _patch(case, np.array(case["X"], dtype=float))
            safe_call(m.predict, Xtr, np.array(case["pre"]["I"], dtype=int)) if case["pre"] else safe_call(m.predict, Xtr)
        S1 = forest_snapshot(m)
        if snapshot_diff(S1, S0) is not None:
            res.see("state_changed_between_saves")
        s1 = safe_call(m.save, pkl)
        m4 = build_model(kind)
        l4 = safe_call(m4.load, pkl) if s1.ok else s1
        if not l4.ok:
            res.violate("load", f"C19/exception/load/{type(l4.exc).__name__}", f"{kind}/{name}: second save/load of the same model raised at {l4.where}")
            return res
        d = snapshot_diff(forest_snapshot(m4), S1)
        if d:
            stale = snapshot_diff(forest_snapshot(m4), S0) is None
            res.violate("load", "C19/loaded-forest-differs/second-save-of-same-model",
                        f"{kind}/{name}: after an in-place state change and a second save, the loaded model differs from the original: {d}" + (" (it equals the FIRST save: stale file content)" if stale else ""))
            return res
        # ---- history: a DIFFERENT model of identical shape (training rows reversed) saved to the SAME path, loaded again
        case_b = dict(case)
        case_b["X"], case_b["Y"] = case["X"][::-1], case["Y"][::-1]
        if case["pre"]:
            case_b["pre"] = {**case["pre"], "I": case["pre"]["I"][::-1]}
        mb = build_model(kind, name, pre=pre_file, max_k=case["max_k"], min_k=case["min_k"])
        fb = _fit(case_b, mb)
        if fb.ok:
            pb = _predict(case_b, mb)
            Sb = forest_snapshot(mb)
            sb = safe_call(mb.save, pkl)
            m3 = build_model(kind)
            l3 = safe_call(m3.load, pkl) if sb.ok else sb
            if not l3.ok:
                res.violate("load", f"C19/exception/load/{type(l3.exc).__name__}", f"{kind}/{name}: second save/load at the same path raised at {l3.where}")
                return res
            res.see("same_path_resave_checked")
            d = snapshot_diff(forest_snapshot(m3), Sb)
            if d:
                stale = snapshot_diff(forest_snapshot(m3), S0) is None
                res.violate("load", "C19/loaded-forest-differs/second-save-same-path",
                            f"{kind}/{name}: a second model saved to the same path and loaded into a fresh model differs from it: {d}" + (" (it equals the model saved there BEFORE: stale load)" if stale else ""))
                return res
            p3 = _predict(case_b, m3)
            if pb.ok and p3.ok and _plain(pb.value) != _plain(p3.value):
                res.violate("load", "C19/loaded-predictions-differ", f"{kind}/{name}: after re-saving at the same path, loaded predictions {_plain(p3.value)} != {_plain(pb.value)}")
                return res
        # ---- two fresh models loaded from the SAME unchanged file are independent objects: using one must not change the other
        ma, mb2 = build_model(kind), build_model(kind)
        la, lb = safe_call(ma.load, pkl), safe_call(mb2.load, pkl)
        if la.ok and lb.ok:
            Sb0 = forest_snapshot(mb2)
            if kind == "unsup":
                safe_call(ma.propagate_labels)
            Xtr = _patch(case, np.array(case_b["X"], dtype=float))
            safe_call(ma.predict, Xtr, np.array(case_b["pre"]["I"], dtype=int)) if case["pre"] else safe_call(ma.predict, Xtr)
            for nd in ma.subgraph.nodes:
                nd.relevant = 1
            res.see("twin_loads_checked")
            d = snapshot_diff(forest_snapshot(mb2), Sb0)
            if d:
                res.violate("load", "C19/loaded-models-share-state",
                            f"{kind}/{name}: two fresh models loaded from the same file share state: using the first changed the second: {d}")
                return res
        if case.get("fresh"):
            qf, out = os.path.join(tmp, "q.json"), os.path.join(tmp, "out.json")
            p_now = _predict(case, m)          # the model's behaviour at the time of this save (labels may have been propagated)
            safe_call(m.save, pkl)
            S_saved = forest_snapshot(m)
            json.dump({"Q": _patch(case, np.array(case["Q"], dtype=float)).tolist(), "IQ": case["pre"]["IQ"] if case["pre"] else None}, open(qf, "w"))
            env = dict(os.environ)
            try:
                pr = subprocess.run([sys.executable, "-m", "opfmon.fresh_load", kind, pkl, qf, out], env=env, cwd=tmp, timeout=300,
                                    capture_output=True, text=True)
            except subprocess.TimeoutExpired:
                res.see("fresh_interpreter_timeout")
                pr = None
            if pr is not None and pr.returncode == 0 and os.path.exists(out):
                doc = json.load(open(out))
                res.see("fresh_interpreter_loads")
                if not doc["load_ok"]:
                    res.violate("load", "C19/fresh-interpreter-load-fails", f"{kind}/{name}: load in a fresh interpreter failed: {doc['err']}")
                    return res
                S1 = doc["snapshot"]
                S1["nodes"] = [tuple(t) for t in S1["nodes"]]
                if "knn" in S1:
                    S1["knn"] = tuple(S1["knn"])
                # the relevance flags may have advanced by the extra predict in the fresh process: compare S0 taken after predict
                d = snapshot_diff(S1, S_saved)
                if d:
                    res.violate("load", "C19/loaded-forest-differs", f"{kind}/{name}: forest loaded in a fresh interpreter differs: {d}")
                    return res
                px, py = np.array([0.3, 0.2, 0.5, 0.7]), np.array([0.1, 0.6, 0.3, 0.9])
                want = safe_call(m.distance_fn, px, py)
                if want.ok and doc.get("probe") not in (None, float(want.value).hex()):
                    res.violate("load", "C19/loaded-metric-differs",
                                f"{kind}/{name}: in a fresh interpreter the loaded model's distance_fn gives {doc.get('probe')} on the probe pair, the original's gives {float(want.value).hex()}")
                    return res
                if p_now.ok and doc.get("pred_ok") and doc["pred"] != _plain(p_now.value):
                    res.violate("load", "C19/loaded-predictions-differ", f"{kind}/{name}: fresh interpreter predicts {doc['pred']}, original {_plain(p_now.value)}")
                    return res
            elif pr is not None:
                res.see("fresh_interpreter_failed_to_run")
                res.note = (pr.stdout + pr.stderr)[-500:]
        # ---- the loaded object goes on living like the original: the SAME follow-up history (another matrix assigned, a re-fit on
        # other rows, a prediction) on the original and on the loaded model must give the same state and results
        if l4.ok:
            if case["pre"]:
                D2 = np.array(case["pre"]["D"], dtype=float)[::-1, ::-1] * 1.5
                m.pre_distances, m4.pre_distances = D2.copy(), D2.copy()
            fo, fl = _fit(case_b, m), _fit(case_b, m4)
            res.see("follow_up_history_compared")
            if fo.ok != fl.ok:
                bad = fl if fo.ok else fo
                res.violate("load", "C19/loaded-model-diverges-later", f"{kind}/{name}: after the same follow-up (new matrix, re-fit) one of original/loaded raised "
                            f"{type(bad.exc).__name__} at {bad.where} and the other did not")
                return res
            if fo.ok:
                d = snapshot_diff(forest_snapshot(m4), forest_snapshot(m))
                if d:
                    res.violate("load", "C19/loaded-model-diverges-later", f"{kind}/{name}: original and loaded model re-fitted on the same data"
                                + (" with the same newly assigned distance matrix" if case["pre"] else "") + f" differ: {d}")
                    return res
                po, pl = _predict(case_b, m), _predict(case_b, m4)
                if po.ok and pl.ok and _plain(po.value) != _plain(pl.value):
                    res.violate("load", "C19/loaded-model-diverges-later", f"{kind}/{name}: after the same re-fit the original predicts {_plain(po.value)}, the loaded model {_plain(pl.value)}")
                    return res
        if case["pre"] and not np.array_equal(np.array(case["pre"]["D"]), np.array(case["pre"]["D"]).T):
            res.see("asymmetric_matrix_cases")
        if case.get("patch"):
            res.see("patch_samples_cases")
        res.see("mode:" + ("pre" if case["pre"] else "fly"))
        res.see("kind:" + kind)
        res.nontrivial = True
        res.cell(kind, name, "pre" if case["pre"] else "fly")
        return res
    finally:
        shutil.rmtree(tmp, ignore_errors=True)
