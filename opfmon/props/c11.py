"""C11 — results are invariant to training order and to monotone rescaling of the metric."""
from __future__ import annotations

import numpy as np

from .. import gen, supcase
from ..base import Result
from ..snap import is_library_domain_error, safe_call, tie_free
from .c01 import shrink_rows
from .c03 import admissible

ID = "C11"
RULE = ("Tie-free training sets (Gaussian / extreme scales, random tie-free matrices) with hostile query batches. (a) a random permutation pi of "
        "the training order (always moving sample 0): per original sample cost (==), prototype status and assigned label, and every prediction "
        "whose exhaustive admissible label set is a singleton, must agree. (b) the five mutually monotone identifiers euclidean, squared_euclidean, "
        "average_euclidean, log_euclidean, log_squared_euclidean: prototypes, assigned labels, predictions must agree. Preconditions verified per "
        "case: training weights pairwise distinct, positive off-diagonal, bit-symmetric; for (b) the joint (train x train, train x query) weights order-isomorphic (equal dense ranks) "
        "across the five metrics; (b)'s premise is evaluated on reference transforms computed by the harness (distinct values > 1e-9 apart). Non-trivial: pi moves a prototype and some query's nearest training sample is not its "
        "conqueror; distinct = case hash.")
ASSUMPTIONS = [
    "cases failing the tie-free / order-isomorphism precondition are rejected and counted; ambiguous queries (admissible label set > 1) are skipped and counted",
    "costs are compared across permutations only (not across metrics)",
]
BUDGET = {
    "quick": {"cases": 6400, "seconds": 90, "shards": 8},
    "thorough": {"cases": 96000, "seconds": 900, "shards": 16},
}
REQUIRED_OBS = ["perm_compared", "rescale_compared", "perm_moves_prototype", "pred_compared", "nearest_not_conqueror", "pre_computed_perm"]
MIN_NONTRIVIAL = 60
FAMILY = gen.EUCLID_FAMILY


def generate(rng, tier, idx):
    part = "perm" if idx % 2 == 0 else "rescale"
    metrics = gen.SAFE_METRICS if part == "perm" else ["euclidean"]
    c = supcase.gen_case(rng, tier, metrics=metrics, force_tie_free=True, allow_pre=(part == "perm"),
                         max_n=36 if tier == "quick" else 80, gclasses=(("G1", "G7", "G7S", "G7S") if part == "rescale" else None))
    n = len(c["X"])
    perm = rng.permutation(n)
    if perm[0] == 0 and n > 1:
        perm[[0, 1]] = perm[[1, 0]]
    c["perm"] = [int(i) for i in perm]
    c["part"] = part
    return c


def _state(o):
    import opfython.utils.constants as c
    nodes = o.model.subgraph.nodes
    return ([nd.cost for nd in nodes], [nd.status == c.PROTOTYPE for nd in nodes], [int(nd.predicted_label) for nd in nodes])


def _predict(o):
    if o.model.pre_computed_distance:
        return safe_call(o.model.predict, o.Q.copy(), o.IQ.copy())
    return safe_call(o.model.predict, o.Q.copy())


def _joint(o, R):
    W = supcase.weights(o)
    n = len(W)
    return W, np.concatenate([W[np.triu_indices(n, 1)], R.ravel()])


def _reference_family(o, case):
    """Joint weights (train pairs i<j, then train x query) under the five published forms, float64, computed by the harness."""
    import math
    X, Q = np.array(case["X"], dtype=float), np.array(case["Q"], dtype=float).reshape(-1, len(case["X"][0]))
    n, d = X.shape
    iu, ju = np.triu_indices(n, 1)
    sq = np.concatenate([((X[iu] - X[ju]) ** 2).sum(1), ((X[:, None, :] - Q[None, :, :]) ** 2).sum(2).ravel()])
    e = np.sqrt(sq)
    return {"euclidean": e, "squared_euclidean": sq, "average_euclidean": np.sqrt(sq / d),
            "log_euclidean": np.array([100000 * math.log(v + 1) for v in e]),
            "log_squared_euclidean": np.array([100000 * math.log(v + 1) for v in sq])}


def check(case):
    res = Result()
    if len(set(case["Y"])) < 2:
        return res.reject("single-class")
    o = supcase.run_case(case, with_prim_hook=False, with_heap_hooks=False)
    if not o.fit.ok:
        if is_library_domain_error(o.fit.exc):
            return res.reject("library-domain-error")
        res.violate("exception", f"C11/exception/fit/{type(o.fit.exc).__name__}", f"fit raised at {o.fit.where}")
        return res
    R = supcase.query_weights(o)
    W, joint = _joint(o, R)
    if not tie_free(W):
        return res.reject("train-not-tie-free")
    if not np.all(np.isfinite(joint)):
        return res.reject("joint-weights-not-finite")
    base_pred = _predict(o)
    if not base_pred.ok:
        res.violate("exception", f"C11/exception/predict/{type(base_pred.exc).__name__}", f"predict raised at {base_pred.where}")
        return res
    adm = admissible(o.model, R)
    cost0, proto0, lab0 = _state(o)
    n = len(cost0)
    nodes = o.model.subgraph.nodes
    decided = [x for x, a in enumerate(adm) if a is not None and len(a[0]) == 1]
    res.see("ambiguous_queries", len(adm) - len(decided))
    near_not_conq = any(int(np.argmin(R[:, x])) not in adm[x][1] for x in decided)
    if near_not_conq:
        res.see("nearest_not_conqueror")

    if case["part"] == "perm":
        perm = case["perm"]
        c2 = {**case, "X": [case["X"][i] for i in perm], "Y": [case["Y"][i] for i in perm]}
        if case.get("pre"):
            c2["pre"] = {**case["pre"], "I": [case["pre"]["I"][i] for i in perm]}
            res.see("pre_computed_perm")
        p = supcase.run_case(c2, with_prim_hook=False, with_heap_hooks=False)
        if not p.fit.ok:
            res.violate("exception", f"C11/exception/fit/{type(p.fit.exc).__name__}", f"fit on the permuted set raised at {p.fit.where}")
            return res
        cost1, proto1, lab1 = _state(p)
        res.see("perm_compared")
        for new, old in enumerate(perm):
            if not (cost1[new] == cost0[old]) or proto1[new] != proto0[old] or lab1[new] != lab0[old]:
                res.violate("permutation", "C11/order-dependent-training",
                            f"sample {old} (position {new} after permutation): cost {float(cost0[old])!r}->{float(cost1[new])!r}, prototype {proto0[old]}->{proto1[new]}, label {lab0[old]}->{lab1[new]}")
                return res
        pp = _predict(p)
        if not pp.ok:
            res.violate("exception", f"C11/exception/predict/{type(pp.exc).__name__}", f"predict after permuted fit raised at {pp.where}")
            return res
        for x in decided:
            res.see("pred_compared")
            if int(pp.value[x]) != int(base_pred.value[x]):
                res.violate("permutation", "C11/order-dependent-prediction",
                            f"query {x}: predicted {int(base_pred.value[x])} before and {int(pp.value[x])} after permuting the training order")
                return res
        moved_proto = any(proto0[old] and new != old for new, old in enumerate(perm))
        if moved_proto:
            res.see("perm_moves_prototype")
        res.nontrivial = moved_proto and near_not_conq and n >= 4
        res.cell("perm", case["metric"] if not case.get("pre") else "pre:" + case["gclass"], case["gclass"])
        return res

    # ---- rescale.  The premise ("a strictly increasing transform") is established on REFERENCE values computed by the harness
    # from the published forms in float64, never on the implementation's own transformed values: a metric that clips or merges
    # weights would otherwise excuse itself.  Required: equal dense ranks under the five forms, every pair of distinct reference
    # values separated by > 1e-9 relative (so a few ulps of difference in a correct implementation cannot reorder them).
    ref = _reference_family(o, case)
    if not all(np.all(np.isfinite(v)) for v in ref.values()):
        return res.reject("reference-weights-not-finite")

    def ranks(vals):
        u, inv = np.unique(vals, return_inverse=True)
        if len(u) > 1 and np.min((u[1:] - u[:-1]) / np.maximum(np.abs(u[1:]), 1e-300)) <= 1e-9:
            return None
        return inv

    rank0 = ranks(ref["euclidean"])
    if rank0 is None:
        return res.reject("reference-weights-too-close:euclidean")
    # the sub-family whose float transform of this data is strictly increasing (tiny magnitudes collapse log(1+d) to 0: those
    # members are outside the premise for this case and are left out, the others are still compared)
    family = ["euclidean"]
    for name in FAMILY[1:]:
        r = ranks(ref[name])
        if r is not None and np.array_equal(r, rank0):
            family.append(name)
        else:
            res.see("family_member_outside_premise:" + name)
    if len(family) < 2:
        return res.reject("no-order-isomorphic-family-member")
    nT = len(case["X"])
    if len(np.unique(ref["euclidean"][: nT * (nT - 1) // 2])) != nT * (nT - 1) // 2:
        return res.reject("reference-train-weights-tied")
    # a query is compared across metrics only if its answer is unambiguous WITH A MARGIN on the reference weights: candidates whose
    # max(cost, d) lies within 1e-9 relative of the minimum count as tied (an exact midpoint may fall either way by one ulp)
    Rref = ref["euclidean"][nT * (nT - 1) // 2:].reshape(nT, -1)
    costE = np.array([float(nd.cost) for nd in nodes])
    labE = [int(nd.predicted_label) for nd in nodes]
    robust = []
    for x in decided:
        mm = np.maximum(costE, Rref[:, x])
        near = np.nonzero(mm <= mm.min() * (1 + 1e-9) + 1e-300)[0]
        if len({labE[t] for t in near}) == 1:
            robust.append(x)
        else:
            res.see("query_ambiguous_within_margin")
    decided = robust
    outs = {}
    for name in family:
        c2 = {**case, "metric": name}
        q = supcase.run_case(c2, with_prim_hook=False, with_heap_hooks=False)
        if not q.fit.ok:
            res.violate("exception", f"C11/exception/fit/{type(q.fit.exc).__name__}", f"fit under {name} raised at {q.fit.where}")
            return res
        pq = _predict(q)
        if not pq.ok:
            res.violate("exception", f"C11/exception/predict/{type(pq.exc).__name__}", f"predict under {name} raised at {pq.where}")
            return res
        outs[name] = (_state(q), [int(v) for v in pq.value])
    res.see("rescale_compared")
    (_, protoE, labE), predE = outs["euclidean"]
    for name in family[1:]:
        (_, pr, lb), pd = outs[name]
        if pr != protoE or lb != labE:
            i = next(i for i in range(n) if pr[i] != protoE[i] or lb[i] != labE[i])
            res.violate("rescale", "C11/scale-dependent-training",
                        f"{name} vs euclidean: sample {i} prototype {protoE[i]}->{pr[i]}, label {labE[i]}->{lb[i]} although the weight orders are isomorphic")
            return res
        for x in decided:
            res.see("pred_compared")
            if pd[x] != predE[x]:
                res.violate("rescale", "C11/scale-dependent-prediction", f"{name} vs euclidean: query {x} predicted {predE[x]} vs {pd[x]}")
                return res
    res.nontrivial = near_not_conq and n >= 4
    res.see("family_size_%d" % len(family))
    res.cell("rescale", case["gclass"], "fam%d" % len(family))
    return res


def shrink(case):
    for c in shrink_rows(case):
        n = len(c["X"])
        if n != len(case["X"]):
            perm = list(np.random.default_rng(n).permutation(n))
            if perm[0] == 0 and n > 1:
                perm[0], perm[1] = perm[1], perm[0]
            c = {**c, "perm": [int(i) for i in perm]}
        yield c
