"""C11 — results are invariant to training order and to monotone rescaling of the metric."""
from __future__ import annotations

import numpy as np

from .. import gen, supcase
from ..base import Result
from ..snap import is_library_domain_error, safe_call, tie_free
from .c01 import shrink_rows
from .c03 import admissible

ID = "C11"
RULE = ("Tie-free training sets (Gaussian / extreme scales, random tie-free matrices) with hostile query batches. (a) a random permutation pi of "
        "the training order (always moving sample 0): per original sample cost (==), prototype status and assigned label, and every prediction "
        "whose exhaustive admissible label set is a singleton, must agree. (b) the five mutually monotone identifiers euclidean, squared_euclidean, "
        "average_euclidean, log_euclidean, log_squared_euclidean: prototypes, assigned labels, predictions must agree. Preconditions verified per "
        "case: training weights pairwise distinct, positive off-diagonal, bit-symmetric; for (b) the joint (train x train, train x query) weights order-isomorphic (equal dense ranks) "
        "across the five metrics in float arithmetic. Non-trivial: pi moves a prototype and some query's nearest training sample is not its "
        "conqueror; distinct = case hash.")
ASSUMPTIONS = [
    "cases failing the tie-free / order-isomorphism precondition are rejected and counted; ambiguous queries (admissible label set > 1) are skipped and counted",
    "costs are compared across permutations only (not across metrics)",
]
BUDGET = {
    "quick": {"cases": 1600, "seconds": 60, "shards": 8},
    "thorough": {"cases": 24000, "seconds": 540, "shards": 16},
}
REQUIRED_OBS = ["perm_compared", "rescale_compared", "perm_moves_prototype", "pred_compared", "nearest_not_conqueror", "pre_computed_perm"]
MIN_NONTRIVIAL = 60
FAMILY = gen.EUCLID_FAMILY


def generate(rng, tier, idx):
    part = "perm" if idx % 2 == 0 else "rescale"
    metrics = gen.SAFE_METRICS if part == "perm" else ["euclidean"]
    c = supcase.gen_case(rng, tier, metrics=metrics, force_tie_free=True, allow_pre=(part == "perm"),
                         max_n=36 if tier == "quick" else 80)
    n = len(c["X"])
    perm = rng.permutation(n)
    if perm[0] == 0 and n > 1:
        perm[[0, 1]] = perm[[1, 0]]
    c["perm"] = [int(i) for i in perm]
    c["part"] = part
    return c


def _state(o):
    import opfython.utils.constants as c
    nodes = o.model.subgraph.nodes
    return ([nd.cost for nd in nodes], [nd.status == c.PROTOTYPE for nd in nodes], [int(nd.predicted_label) for nd in nodes])


def _predict(o):
    if o.model.pre_computed_distance:
        return safe_call(o.model.predict, o.Q.copy(), o.IQ.copy())
    return safe_call(o.model.predict, o.Q.copy())


def _joint(o, R):
    W = supcase.weights(o)
    n = len(W)
    return W, np.concatenate([W[np.triu_indices(n, 1)], R.ravel()])


def check(case):
    res = Result()
    if len(set(case["Y"])) < 2:
        return res.reject("single-class")
    o = supcase.run_case(case, with_prim_hook=False, with_heap_hooks=False)
    if not o.fit.ok:
        if is_library_domain_error(o.fit.exc):
            return res.reject("library-domain-error")
        res.violate("exception", f"C11/exception/fit/{type(o.fit.exc).__name__}", f"fit raised at {o.fit.where}")
        return res
    R = supcase.query_weights(o)
    W, joint = _joint(o, R)
    if not tie_free(W):
        return res.reject("train-not-tie-free")
    if not np.all(np.isfinite(joint)):
        return res.reject("joint-weights-not-finite")
    base_pred = _predict(o)
    if not base_pred.ok:
        res.violate("exception", f"C11/exception/predict/{type(base_pred.exc).__name__}", f"predict raised at {base_pred.where}")
        return res
    adm = admissible(o.model, R)
    cost0, proto0, lab0 = _state(o)
    n = len(cost0)
    nodes = o.model.subgraph.nodes
    decided = [x for x, a in enumerate(adm) if a is not None and len(a[0]) == 1]
    res.see("ambiguous_queries", len(adm) - len(decided))
    near_not_conq = any(int(np.argmin(R[:, x])) not in adm[x][1] for x in decided)
    if near_not_conq:
        res.see("nearest_not_conqueror")

    if case["part"] == "perm":
        perm = case["perm"]
        c2 = {**case, "X": [case["X"][i] for i in perm], "Y": [case["Y"][i] for i in perm]}
        if case.get("pre"):
            c2["pre"] = {**case["pre"], "I": [case["pre"]["I"][i] for i in perm]}
            res.see("pre_computed_perm")
        p = supcase.run_case(c2, with_prim_hook=False, with_heap_hooks=False)
        if not p.fit.ok:
            res.violate("exception", f"C11/exception/fit/{type(p.fit.exc).__name__}", f"fit on the permuted set raised at {p.fit.where}")
            return res
        cost1, proto1, lab1 = _state(p)
        res.see("perm_compared")
        for new, old in enumerate(perm):
            if not (cost1[new] == cost0[old]) or proto1[new] != proto0[old] or lab1[new] != lab0[old]:
                res.violate("permutation", "C11/order-dependent-training",
                            f"sample {old} (position {new} after permutation): cost {float(cost0[old])!r}->{float(cost1[new])!r}, prototype {proto0[old]}->{proto1[new]}, label {lab0[old]}->{lab1[new]}")
                return res
        pp = _predict(p)
        if not pp.ok:
            res.violate("exception", f"C11/exception/predict/{type(pp.exc).__name__}", f"predict after permuted fit raised at {pp.where}")
            return res
        for x in decided:
            res.see("pred_compared")
            if int(pp.value[x]) != int(base_pred.value[x]):
                res.violate("permutation", "C11/order-dependent-prediction",
                            f"query {x}: predicted {int(base_pred.value[x])} before and {int(pp.value[x])} after permuting the training order")
                return res
        moved_proto = any(proto0[old] and new != old for new, old in enumerate(perm))
        if moved_proto:
            res.see("perm_moves_prototype")
        res.nontrivial = moved_proto and near_not_conq and n >= 4
        res.cell("perm", case["metric"] if not case.get("pre") else "pre:" + case["gclass"], case["gclass"])
        return res

    # ---- rescale
    rank0 = np.unique(joint, return_inverse=True)[1]      # dense ranks: ties allowed if they are ties under every metric
    outs = {}
    for name in FAMILY:
        c2 = {**case, "metric": name}
        q = supcase.run_case(c2, with_prim_hook=False, with_heap_hooks=False)
        if not q.fit.ok:
            res.violate("exception", f"C11/exception/fit/{type(q.fit.exc).__name__}", f"fit under {name} raised at {q.fit.where}")
            return res
        Rq = supcase.query_weights(q)
        Wq, jq = _joint(q, Rq)
        if not tie_free(Wq) or not np.all(np.isfinite(jq)) or not np.array_equal(np.unique(jq, return_inverse=True)[1], rank0):
            return res.reject("not-order-isomorphic:" + name)
        pq = _predict(q)
        if not pq.ok:
            res.violate("exception", f"C11/exception/predict/{type(pq.exc).__name__}", f"predict under {name} raised at {pq.where}")
            return res
        outs[name] = (_state(q), [int(v) for v in pq.value])
    res.see("rescale_compared")
    (_, protoE, labE), predE = outs["euclidean"]
    for name in FAMILY[1:]:
        (_, pr, lb), pd = outs[name]
        if pr != protoE or lb != labE:
            i = next(i for i in range(n) if pr[i] != protoE[i] or lb[i] != labE[i])
            res.violate("rescale", "C11/scale-dependent-training",
                        f"{name} vs euclidean: sample {i} prototype {protoE[i]}->{pr[i]}, label {labE[i]}->{lb[i]} although the weight orders are isomorphic")
            return res
        for x in decided:
            res.see("pred_compared")
            if pd[x] != predE[x]:
                res.violate("rescale", "C11/scale-dependent-prediction", f"{name} vs euclidean: query {x} predicted {predE[x]} vs {pd[x]}")
                return res
    res.nontrivial = near_not_conq and n >= 4
    res.cell("rescale", case["gclass"])
    return res


def shrink(case):
    for c in shrink_rows(case):
        n = len(c["X"])
        if n != len(case["X"]):
            perm = list(np.random.default_rng(n).permutation(n))
            if perm[0] == 0 and n > 1:
                perm[0], perm[1] = perm[1], perm[0]
            c = {**c, "perm": [int(i) for i in perm]}
        yield c
