"""C16 — the neighbourhood size chosen by training is the best candidate."""
from __future__ import annotations

import math

import numpy as np

from .. import gen, hooks, knncase
from ..base import Result
from ..snap import is_library_domain_error, safe_call

ID = "C16"
RULE = ("KNNSupervisedOPF and UnsupervisedOPF fits with max_k up to n-1 on Gaussian / lattice / duplicate / blob data; KNN validation sets with correct, "
        "systematically wrong (all accuracies 0) and shuffled labels, 8% with sparse class identifiers {0, ~40000..} (imperfect scores within 1e-5 of 1). "
        "Source-free hooks record the event log: create_arcs(k), calculate_pdf(k), clustering(args), criterion values (opf_accuracy over the VALIDATION "
        "labels / normalised-cut return values). Offline checker, independent of the order and pattern of internal calls: KNN - each accuracy belongs to "
        "the candidate whose density estimate ran last (none observed => inconclusive); best_k was evaluated, every smaller k was evaluated and scored "
        "strictly lower, every larger k was evaluated and scored no higher or was skipped after best_k scored exactly 1.0; unsupervised - evaluated ks are "
        "distinct candidates of min_k..max_k, all of them unless the last evaluated cut == 0.0, best_k == smallest arg-min cut among them (a k evaluated "
        "again is not a new candidate). Final model, judged on state: node densities == the k=best_k estimate recomputed from the pairwise weights with "
        "the model's own constant, every predecessor link is an arc of the k=best_k graph or of its plateau symmetrisation, (unsupervised) every arc list "
        "has best_k + n_plateaus entries. Non-trivial: >=3 candidates, >=2 distinct criterion values, best not the first candidate; distinct = case hash.")
ASSUMPTIONS = [
    "criterion values are taken as observed (their definitions are C20's and the clustering's business)",
    "max_k <= n_train-1; unsupervised inputs with a zero density bound (every sample has >= k exact duplicates) are rejected by precondition",
    "hook points: KNNSubgraph.create_arcs/calculate_pdf, the models' _clustering/_normalized_cut and opfython.math.general.opf_accuracy; a missing hook makes the dependent clause inconclusive, never an alarm",
]
BUDGET = {
    "quick": {"cases": 9600, "seconds": 90, "shards": 8},
    "thorough": {"cases": 160000, "seconds": 900, "shards": 16},
}
REQUIRED_OBS = ["exhaustive_small_graph_cases", "knn_selection_checked", "unsup_selection_checked", "knn_all_accuracies_zero", "knn_best_not_first", "unsup_best_not_first",
                "unsup_early_stop_at_zero_cut", "accuracy_plateau"]
MIN_NONTRIVIAL = 100


def generate(rng, tier, idx):
    c = knncase.gen_knn_case(rng, tier, model=("knn" if idx % 2 else "unsup"), metrics=gen.SAFE_METRICS, allow_pre=True)
    n = len(c["X"])
    if rng.random() < 0.6:
        c["max_k"] = int(min(n - 1, rng.integers(3, 9)))
        c["max_k"] = max(1, c["max_k"])
        c["min_k"] = int(rng.integers(1, c["max_k"] + 1)) if rng.random() < 0.5 else 1
    if c["model"] == "knn" and idx % 10 == 1:
        # hostile: validation rows are exact training rows carrying a different label -> every candidate scores badly
        k = min(len(c["V"]), n)
        K = max(c["Y"]) + 1
        c["V"] = [c["X"][i] for i in range(k)]
        c["YV"] = [int((c["Y"][i] + 1) % K) for i in range(k)]
        c["YV"][0] = K - 1 if c["YV"][0] != K - 1 and (K - 1) not in c["YV"] else c["YV"][0]
    return c


def check(case):
    import opfython.math.general as g
    import opfython.models.knn_supervised as mk
    import opfython.models.unsupervised as mu
    from opfython.subgraphs import KNNSubgraph

    res = Result()
    kind = case["model"]
    X, Y, V, YV, Q = knncase.arrays(case)
    n = len(X)
    if case["max_k"] > n - 1:
        return res.reject("max_k>n-1")
    if kind == "knn" and int(YV.max()) < int(Y.max()):
        return res.reject("validation-labels-miss-top-class")
    if kind == "unsup":
        from opfython.math.distance import DISTANCES
        fn = DISTANCES[case["metric"]]
        if case.get("pre"):
            I = np.array(case["pre"]["I"], dtype=int)
            W = np.array(case["pre"]["D"], dtype=float)[np.ix_(I, I)]
        else:
            W = np.array([[float(fn(X[i].copy(), X[j].copy())) if i != j else 0.0 for j in range(n)] for i in range(n)])
        if knncase.degenerate_density(case, W):
            return res.reject("zero-density-bound")
    rec = hooks.Recorder()
    cls = mk.KNNSupervisedOPF if kind == "knn" else mu.UnsupervisedOPF

    def ev(name, pick):
        def after(rec, args, kwargs, result):
            rec.add("log", (name,) + tuple(pick(args, kwargs, result)))
        return after

    targets = [
        (KNNSubgraph, "create_arcs", None, ev("arcs", lambda a, k, r: (int(a[1] if len(a) > 1 else k.get("k")),))),
        (KNNSubgraph, "calculate_pdf", None, ev("pdf", lambda a, k, r: (int(a[1] if len(a) > 1 else k.get("n_neighbours")),))),
        (KNNSubgraph, "destroy_arcs", None, ev("destroy", lambda a, k, r: ())),
    ]
    if kind == "knn":
        targets.append((cls, "_clustering", None, ev("cluster", lambda a, k, r: (bool(a[1]) if len(a) > 1 else bool(k.get("force_prototype", False)),))))
        yv_ref = [int(v) for v in YV]

        def is_validation_call(a, k):
            # only accuracy evaluations over the VALIDATION labels are candidate scores; any other call (e.g. a training accuracy for a log line) is not
            lab = a[0] if a else k.get("labels")
            try:
                return [int(v) for v in np.asarray(lab).ravel()] == yv_ref
            except Exception:  # noqa: BLE001
                return False
        targets.append((g, "opf_accuracy", None, ev("crit", lambda a, k, r: (float(r), is_validation_call(a, k)))))
    else:
        targets.append((cls, "_clustering", None, ev("cluster", lambda a, k, r: (int(a[1] if len(a) > 1 else k.get("n_neighbours")),))))
        targets.append((cls, "_normalized_cut", None, ev("crit", lambda a, k, r: (int(a[1] if len(a) > 1 else k.get("n_neighbours")), float(r)))))
    with hooks.patched(rec, targets):
        # a prior fit on the same object (case["refit"]) is history, not part of the judged event log
        m, call = knncase.fit_model(case, before_final=rec.events.clear)
    log = rec.of("log")
    if kind == "knn":
        n_other = sum(1 for e in log if e[0] == "crit" and not e[2])
        if n_other:
            res.see("accuracy_calls_not_on_validation_labels", n_other)
        log = [e for e in log if not (e[0] == "crit" and not e[2])]
    crit = [e for e in log if e[0] == "crit"]
    if not call.ok:
        if is_library_domain_error(call.exc):
            return res.reject("library-domain-error")
        if kind == "knn":
            accs = [e[1] for e in crit]
            mech = "all-candidates-score-zero" if accs and all(a == 0 for a in accs) else "other"
            res.violate("selection", f"C16/knn/no-k-selected/{mech}",
                        f"KNN fit (max_k={case['max_k']}) raised {type(call.exc).__name__} at {call.where} after observing accuracies {accs}: no k was kept although k=1 is the smallest k with the highest accuracy")
        elif crit and all(e[2] != e[2] for e in crit):
            # every candidate's cut is NaN (reciprocals of denormal distances overflow): the criterion is undefined for this input
            return res.reject("criterion-all-nan")
        else:
            res.violate("selection", f"C16/unsup/exception/{type(call.exc).__name__}",
                        f"unsupervised fit (k in {case['min_k']}..{case['max_k']}) raised at {call.where}: {str(call.exc)[:200]}")
        return res
    if rec.missing:
        res.see("hook_missing")
        res.note = str(rec.missing)
        return res.reject("hook-missing:" + ",".join(rec.missing))
    best = int(m.subgraph.best_k)
    if kind == "knn":
        max_k = case["max_k"]
        # Each validation accuracy belongs to the candidate whose density estimate (calculate_pdf(k)) - failing that, whose arcs - was computed
        # last before it; if neither was observed since the previous accuracy the attribution is undecided (inconclusive, never an alarm).
        # The ORDER in which candidates are tried is free.
        by_k, cur, order = {}, None, []
        for e in log:
            if e[0] == "pdf":
                cur = e[1]
            elif e[0] == "arcs" and cur is None:
                cur = e[1]
            elif e[0] == "crit":
                if cur is None:
                    return res.reject("candidate-attribution-undecided")
                by_k.setdefault(cur, e[1])
                order.append(cur)
                cur = None
        if not by_k or any(not (1 <= k <= max_k) for k in by_k):
            res.violate("selection", "C16/knn/candidates", f"candidate ks evaluated {sorted(by_k)} with {len(crit)} accuracies; expected candidates of 1..{max_k}")
            return res
        if any(not math.isfinite(a) for a in by_k.values()):
            return res.reject("criterion-not-finite")
        if order != list(range(1, max_k + 1)):
            res.see("knn_candidates_in_another_order_or_not_all")
        res.see("knn_selection_checked")
        # "the smallest k in 1..max_k whose validation accuracy is highest among all candidates": every smaller k was tried and scored strictly
        # lower; every larger k was tried and did not score higher - or was legitimately skipped because the kept k already reached 1.0, the
        # largest value the measure can take
        if best not in by_k:
            res.violate("selection", "C16/knn/candidates", f"best_k={best} was never evaluated (evaluated: {sorted(by_k)})")
            return res
        top = by_k[best]
        for k in range(1, max_k + 1):
            if k == best:
                continue
            if k not in by_k:
                if k > best and top == 1.0:
                    res.see("knn_candidates_skipped_after_perfect_score")
                    continue
                res.violate("selection", "C16/knn/candidates",
                            f"candidate k={k} of 1..{max_k} was never evaluated although best_k={best} scored {top!r} (evaluated: {sorted(by_k)})")
                return res
            if (k < best and not by_k[k] < top) or (k > best and by_k[k] > top):
                accs_txt = [by_k.get(t) for t in range(1, max_k + 1)]
                want = min(t for t in by_k if by_k[t] == max(by_k.values()))
                res.violate("selection", "C16/knn/not-smallest-argmax", f"best_k={best} but accuracies by k are {accs_txt}: smallest k with the highest accuracy is {want}")
                return res
        accs = [by_k[k] for k in sorted(by_k)]
        want = best
        # "its final model is built with that k": judged on the STATE the fit leaves (densities == those of a fresh graph built with k = best_k),
        # not on the sequence of internal calls, which an implementation is free to organise otherwise
        bad = _final_state_mismatch(m, case, best)
        if bad:
            res.violate("selection", "C16/knn/final-model-not-best-k", f"best_k={best} but the final model's densities are not those of a graph built with k={best}: {bad}")
            return res
        tail = [e for e in log if e[0] in ("arcs", "pdf", "cluster")][-3:]
        if tail != [("arcs", best), ("pdf", best), ("cluster", True)]:
            res.see("final_build_call_pattern_differs")
        if all(a == 0 for a in accs):
            res.see("knn_all_accuracies_zero")
        if len(set(accs)) < len(accs):
            res.see("accuracy_plateau")
        if want != 1:
            res.see("knn_best_not_first")
        res.nontrivial = max_k >= 3 and len(set(accs)) >= 2 and want != 1
    else:
        lo, hi = case["min_k"], case["max_k"]
        cuts_all = [(e[1], e[2]) for e in crit]
        cuts, seen_k = [], set()
        for k_, v_ in cuts_all:          # a k evaluated again later (e.g. a read-only cut of the final model) is not a new candidate
            if k_ in seen_k:
                res.see("unsup_cut_evaluated_again")
                continue
            seen_k.add(k_)
            cuts.append((k_, v_))
        ks = [k for k, _ in cuts]
        # the ORDER in which candidates are tried is free; they must be distinct candidates of the range
        if not ks or len(set(ks)) != len(ks) or min(ks) < lo or max(ks) > hi:
            res.violate("selection", "C16/unsup/candidates", f"evaluated ks {ks} are not distinct candidates of {lo}..{hi}")
            return res
        if ks != list(range(lo, lo + len(ks))):
            res.see("unsup_candidates_in_another_order")
        if any(v in (float("inf"), float("-inf")) for _, v in cuts):
            return res.reject("criterion-not-finite")
        if all(v != v for _, v in cuts):
            return res.reject("criterion-all-nan")
        if any(v != v for _, v in cuts):
            res.see("nan_cut_candidates")
        if len(ks) != hi - lo + 1:
            if cuts[-1][1] != 0.0:
                res.violate("selection", "C16/unsup/stopped-early", f"only {ks} of {lo}..{hi} were evaluated although the last cut is {cuts[-1][1]!r} != 0")
                return res
            res.see("unsup_early_stop_at_zero_cut")
        if any(v == 0.0 for _, v in cuts[:-1]):
            res.see("unsup_continued_after_zero_cut")          # allowed: the statement says it MAY stop
        vals = [v for _, v in cuts]
        # a NaN cut is not lower than anything: the smallest k with the lowest cut is taken over the comparable values
        want = min(((v if v == v else float("inf")), k) for k, v in cuts)[1]
        res.see("unsup_selection_checked")
        if best != want:
            res.violate("selection", "C16/unsup/not-smallest-argmin", f"best_k={best} but cuts by k are {cuts}: smallest k with the lowest cut is {want}")
            return res
        bad = _final_state_mismatch(m, case, best)
        if bad:
            res.violate("selection", "C16/unsup/final-model-not-best-k", f"best_k={best} but the final model's densities are not those of a graph built with k={best}: {bad}")
            return res
        tail = [e for e in log if e[0] in ("arcs", "pdf", "cluster")][-3:]
        if tail != [("arcs", best), ("pdf", best), ("cluster", best)]:
            res.see("final_build_call_pattern_differs")
        for i, nd in enumerate(m.subgraph.nodes):
            if len(nd.adjacency) != min(best, n - 1) + nd.n_plateaus:
                res.violate("selection", "C16/unsup/final-model-not-best-k", f"sample {i}: arc list has {len(nd.adjacency)} entries, expected best_k + n_plateaus = {best}+{nd.n_plateaus}")
                return res
        if want != min(ks):
            res.see("unsup_best_not_first")
        if len(set(vals)) < len(vals):
            res.see("accuracy_plateau")
        res.nontrivial = len(ks) >= 3 and len(set(vals)) >= 2 and want != min(ks)
    res.cell(kind, case["gclass"], "k" + str(min(case["max_k"], 8)))
    return res


def _final_state_mismatch(m, case, best):
    """The fitted model's densities against the density estimate with k = best neighbours, recomputed here from the pairwise weights with
    the model's OWN stored constant (the bound it derives from is whatever the implementation accumulated; C12 owns that)."""
    import opfython.utils.constants as c
    from ..snap import weight_matrix

    sg = m.subgraph
    nodes = sg.nodes
    n = len(nodes)
    try:
        W = weight_matrix(m)
    except Exception:  # noqa: BLE001 - the metric raised on these rows: nothing to compare
        return None
    const = float(sg.constant)
    if not np.all(np.isfinite(W)) or not (const > 0) or not math.isfinite(const) or best > n - 1:
        return None
    pdf = []
    for i in range(n):
        ds = sorted(float(W[i, j]) for j in range(n) if j != i)[:best]
        pdf.append(math.fsum(math.exp(-d / const) for d in ds) / (best + 1))
    lo, hi = min(pdf), max(pdf)
    dens = [float(nd.density) for nd in nodes]
    if not all(math.isfinite(v) for v in dens):
        return None
    if not hi - lo > 1e-12 * hi:
        return None          # (nearly) all equal: the affine map is ill-conditioned, C12 judges that regime
    amp = (c.MAX_DENSITY - 1) * hi / (hi - lo)
    tol = 1e-12 * amp + 1e-9
    for i in range(n):
        ref = (c.MAX_DENSITY - 1) * (pdf[i] - lo) / (hi - lo) + 1
        if abs(dens[i] - ref) > tol * max(1.0, abs(ref)):
            return f"sample {i}: density {dens[i]!r}, estimate with {best} neighbours {ref!r} (tol {tol:.3g})"
    # the forest itself is grown over the k = best graph: every predecessor link is an arc of that graph (the child is among the parent's
    # `best` nearest, ties at the k-th distance admitted) or of its plateau symmetrisation (equal densities, parent among the child's nearest)
    kth = [sorted(float(W[i, j]) for j in range(n) if j != i)[best - 1] for i in range(n)]
    for i in range(n):
        p_ = int(nodes[i].pred)
        if p_ == -1 or p_ == i:
            continue
        if W[p_, i] <= kth[p_] or (dens[i] == dens[p_] and W[i, p_] <= kth[i]):
            continue
        return (f"sample {i} hangs below sample {p_} at distance {float(W[p_, i])!r}, but {p_}'s {best} nearest neighbours end at {kth[p_]!r}"
                f" (densities {dens[i]!r} / {dens[p_]!r})")
    return None


def extra(tier, seed, shard=0, nshards=1):
    """Bounded-exhaustive pass: every symmetric weight matrix over {1,2[,3]} on 4..5 nodes (3..4 in the quick tier) x labellings,
    as pre-computed matrices with a reversed index array, for both models and the k ranges 1..1, 1..2, 2..n-1, 1..n-1."""
    out, agg, n_cases = [], Result(), 0
    for n, D, Y in gen.exhaustive_small_graphs(tier, shard, nshards):
        I = list(range(n))[::-1]
        DD = np.zeros((n, n))
        for a in range(n):
            for b in range(n):
                DD[I[a], I[b]] = D[a, b]
        ranges = sorted({(1, 1), (1, min(2, n - 1)), (min(2, n - 1), n - 1), (1, n - 1)})
        for model in ("unsup", "knn"):
            for lo, hi in ranges:
                case = {"model": model, "metric": "log_squared_euclidean", "gclass": "pre:EXH", "pattern": "exh",
                        "X": [[float(i)] for i in I], "Y": list(Y), "V": [[float(i)] for i in range(n)], "YV": [int(Y[I.index(i)]) for i in range(n)],
                        "Q": [[float(i)] for i in range(n)], "min_k": lo, "max_k": hi, "refit": False, "propagate": bool(n_cases % 2),
                        "pre": {"D": DD.tolist(), "I": I, "IV": list(range(n)) if model == "knn" else None, "IQ": list(range(n)), "kind": "EXH"}}
                if max(case["YV"]) < max(Y):
                    continue
                r = check(case)
                n_cases += 1
                if r.violations:
                    out.append((case, r))
                else:
                    agg.obs.update(r.obs)
    agg.see("exhaustive_small_graph_cases", n_cases)
    agg.cell("exhaustive-small-graphs", tier)
    out.append(({"exhaustive_small_graphs": {"tier": tier, "cases_this_shard": n_cases}}, agg))
    return out
