"""C06 — each of the 47 named metrics computes its published closed form; registry == whitelist.

Oracle: independent scalar Decimal evaluation of the closed form (opfmon.metrics_table) on the exact
binary inputs, beside the real registry function called on copies of the inputs.
"""
from __future__ import annotations

import math

import numpy as np

from ..base import Result
from ..gen import dom_vec, int_vec
from ..metrics_table import EXTREME_SCALES, NAMES, NEAR_DUPLICATE_ACCURATE, SQRT_FORMS, T, reference

ID = "C06"
RULE = ("Per case one (metric, length, input-class, memory-layout) cell: vectors drawn from the metric's domain "
        "(lengths 1,2,3,4,5,8,17,64, for 4% of cases 200 / 784, for 0.5% 1024 / 2048; int32/int64/uint8/uint16 arrays of integer-valued vectors; near-duplicate pairs for the metrics of NEAR_DUPLICATE_ACCURATE; classes plain/zero-containing/integer/large), contiguous, strided-view or "
        "read-only arrays; value compared with a 60-digit Decimal closed form within 1e-9*|ref|+1e-10*sum|terms|+1e-12. "
        "Registry cases: every candidate identifier x every model class: accepted <=> in registry, distance_fn is the "
        "registry entry. Non-trivial: length>=2 and x!=y; distinct = distinct (metric, vectors) hash.")
RULE += (' Registry cases also try near-miss spellings of each identifier (dashes, upper case, leading blank, trailing underscore): accepted <=> in registry.')
ASSUMPTIONS = [
    "closed forms and constant conventions are those transcribed in opfmon/metrics_table.py (Prasath et al. 2017, Cha 2007, Hassanat 2014)",
    "value comparison is on well-conditioned (independent) vectors; near-identical / parallel pairs are judged by C08's axioms instead",
    "decorated metrics are compared against the closed form at (x+1e-20, y+1e-20), the library's documented shift",
    "magnitudes up to 1e3 (R) / 5e2 (P), plus the two extreme scales 1e-80 / 1e+80 of metrics_table.EXTREME_SCALES (lengths <= 8) where term-by-term evaluation stays inside the float range",
]
BUDGET = {
    "quick": {"cases": 40000, "seconds": 90, "shards": 8},
    "thorough": {"cases": 800000, "seconds": 900, "shards": 16},
}
REQUIRED_OBS = ["integer_dtype_cases", "near_duplicate_cases", "length>=1024_cases", "extreme_scale_cases", "value_compared", "registry_accept_checked", "registry_reject_checked", "layout:strided", "layout:readonly"]
MIN_NONTRIVIAL = 500
LENGTHS = [1, 2, 3, 4, 5, 8, 17, 64]
MODELS = ["SupervisedOPF", "SemiSupervisedOPF", "KNNSupervisedOPF", "UnsupervisedOPF"]


def generate(rng, tier, idx):
    if idx % 25 == 24:
        return {"registry": True, "probe": int(rng.integers(0, 1 << 30))}
    name = NAMES[idx % len(NAMES)] if rng.random() < 0.7 else NAMES[int(rng.integers(0, len(NAMES)))]
    kind = T[name][1]
    n = LENGTHS[int(rng.integers(0, len(LENGTHS)))]
    if rng.random() < 0.04:
        n = int(rng.choice([200, 784]))
    zeros = bool(rng.random() < 0.25) and kind in ("P", "Q", "N") and T[name][3] == 1
    x = dom_vec(rng, kind, n, zeros=zeros)
    y = dom_vec(rng, kind, n, zeros=zeros)
    layout = ["contig", "contig", "strided", "readonly"][int(rng.integers(0, 4))]
    scale = 1.0
    if EXTREME_SCALES.get(name) and rng.random() < 0.06:
        scale = float(rng.choice(EXTREME_SCALES[name]))
        n = int(rng.choice([1, 2, 3, 5, 8]))
        x = (np.abs(rng.normal(size=n)) + 0.1 if kind in ("P", "N") else rng.normal(size=n)) * scale
        y = (np.abs(rng.normal(size=n)) + 0.1 if kind in ("P", "N") else rng.normal(size=n)) * scale
        zeros = False
    dtype, neardup = "f64", False
    r = rng.random()
    if scale == 1.0 and kind != "Q" and r < 0.12:
        # integer-valued vectors handed over as int32 / int64 arrays (zeros allowed where the EPSILON shift applies)
        dtype = str(rng.choice(["i32", "i64", "u8", "u16"]))       # signed and unsigned (image-like) integer arrays
        n = int(rng.choice([1, 2, 3, 5, 8, 17]))
        nar = dtype in ("u8", "u16")
        x, y = int_vec(rng, kind, n, bool(T[name][3]), narrow=nar), int_vec(rng, kind, n, bool(T[name][3]), narrow=nar)
        zeros = bool((x == 0).any() or (y == 0).any())
        layout = "contig"
    elif scale == 1.0 and r < 0.16 and name in NEAR_DUPLICATE_ACCURATE:
        neardup = True                      # y = x * (1 +- 1e-6): judged with a RELATIVE tolerance only
        n = int(rng.choice([1, 2, 3, 5, 8]))
        x = dom_vec(rng, kind, n) if kind != "R" else rng.normal(size=n) * 3
        x = np.where(np.abs(x) < 1e-3, 1.0, x)
        # relative perturbation of magnitude 1e-7..1e-6, either sign: small enough to be "near", large enough that the cancellation inside a
        # term (x - m, sqrt(x) - sqrt(y)) costs at most ~eps/1e-7 = 2e-9 relative, far below the 1e-6 the comparison grants
        y = x * (1 + rng.uniform(1e-7, 1e-6, size=n) * rng.choice([-1.0, 1.0], size=n))
        zeros = False
    elif scale == 1.0 and r < 0.165:
        n = int(rng.choice([1024, 2048]))   # block-wise summation code paths (multiples of a chunk size)
        x, y = dom_vec(rng, kind, n), dom_vec(rng, kind, n)
        zeros = False
    return {"metric": name, "x": [float(v) for v in x], "y": [float(v) for v in y], "layout": layout, "zeros": zeros, "scale": scale,
            "dtype": dtype, "neardup": neardup}


def _layout(v, layout, dtype="f64"):
    if dtype in ("i32", "i64", "u8", "u16"):
        return np.array([int(t) for t in v], dtype={"i32": np.int32, "i64": np.int64, "u8": np.uint8, "u16": np.uint16}[dtype])
    a = np.array(v, dtype=float)
    if layout == "strided":
        b = np.empty(2 * len(a), dtype=float)
        b[:] = np.nan          # poison the gaps: reading them would surface as NaN
        b[::2] = a
        return b[::2]
    if layout == "readonly":
        a.flags.writeable = False
    return a


def check(case):
    res = Result()
    if "boundscheck_pass" in case:
        out = extra("thorough", 0, 0, 1)
        return out[0][1] if out else res
    if case.get("registry"):
        return _check_registry(case, res)
    from opfython.math.distance import DISTANCES

    name = case["metric"]
    x, y = case["x"], case["y"]
    if name not in DISTANCES:
        res.violate("registry", "C06/registry-missing", f"identifier {name!r} not in DISTANCES")
        return res
    ref, mag = reference(name, x, y)
    if not (math.isfinite(ref) and math.isfinite(mag)):
        return res.reject("reference-not-finite")
    ax, ay = _layout(x, case["layout"], case.get("dtype", "f64")), _layout(y, case["layout"], case.get("dtype", "f64"))
    try:
        got = float(DISTANCES[name](ax, ay))
    except Exception as ex:
        res.violate("exception", f"C06/exception/{type(ex).__name__}",
                    f"{name}({case['layout']} arrays of length {len(x)}) raised {type(ex).__name__}: {str(ex)[:300]}")
        return res
    res.see("value_compared")
    res.see("layout:" + case["layout"])
    if case.get("neardup"):
        g2, r2 = (got * got, ref * ref) if name in SQRT_FORMS else (got, ref)
        # conditioning of the per-term differences: a pair that differs by a relative delta loses ~eps/delta of relative accuracy in x - y
        dmin = min([abs(a - b) / max(abs(a), abs(b)) for a, b in zip(x, y) if a != b] or [1.0])
        tol = (1e-6 + 1024 * 2.220446049250313e-16 / dmin) * abs(r2) + 1e-300
        bad = not abs(g2 - r2) <= tol
        res.see("near_duplicate_cases")
    elif name in SQRT_FORMS:
        # value = sqrt(radicand): rounding of the radicand is amplified without bound near 0, so the comparison is made
        # on the radicands (got^2 vs ref^2) with the magnitude of the radicand's terms
        tol = 1e-9 * ref * ref + 1e-10 * mag * mag + (1e-12 if case.get("scale", 1.0) == 1.0 else 1e-300)
        if case.get("dtype") in ("u8", "u16"):
            tol = 1e-6 * ref * ref + 1e-7 * mag * mag + 1e-9       # narrow integer inputs: numpy evaluates some terms in float32
        bad = not (got >= 0 and abs(got * got - ref * ref) <= tol)
    else:
        tol = 1e-9 * abs(ref) + 1e-10 * mag + (1e-12 if case.get("scale", 1.0) == 1.0 else 1e-300)
        if case.get("dtype") in ("u8", "u16"):
            tol = 1e-6 * abs(ref) + 1e-7 * mag + 1e-9
        bad = not abs(got - ref) <= tol
    if bad and T[name][3] and not (0.0 in x or 0.0 in y):
        # shifted metric, no exact zero among the inputs: the statement's closed form is the UNSHIFTED one; an implementation that
        # only replaces exact zeros by EPSILON (instead of adding EPSILON everywhere) is at least as close to it. Accept either.
        ref2, mag2 = reference(name, x, y, shifted=False)
        if math.isfinite(ref2) and math.isfinite(mag2):
            g2, r2 = (got * got, ref2 * ref2) if name in SQRT_FORMS else (got, ref2)
            if abs(g2 - r2) <= 1e-9 * abs(r2) + 1e-10 * (mag2 * mag2 if name in SQRT_FORMS else mag2) + 1e-300:
                bad = False
                res.see("matched_unshifted_closed_form")
    if bad:
        res.violate("value", "C06/value/unsigned-dtype" if case.get("dtype") in ("u8", "u16") else "C06/value", f"{name} len={len(x)} got {got!r} closed form {ref!r} (tol {tol:.3g}) x={x} y={y}")
    res.nontrivial = len(x) >= 2 and x != y
    if case.get("scale", 1.0) != 1.0:
        res.see("extreme_scale_cases")
    if case.get("dtype", "f64") != "f64":
        res.see("integer_dtype_cases")
    if len(x) >= 1024:
        res.see("length>=1024_cases")
    cls = case["dtype"] if case.get("dtype", "f64") != "f64" else "neardup" if case.get("neardup") else ("scale%g" % case["scale"]) if case.get("scale", 1.0) != 1.0 else "zeros" if case.get("zeros") else ("neg" if min(min(x), min(y)) < 0 else "pos")
    res.cell(name, "len" + str(len(x)), cls, case["layout"])
    return res


def _candidates():
    import inspect
    import logging

    import opfython.math.distance as dm
    from opfython.core.opf import OPF

    cands = set(dm.DISTANCES)
    for n, f in vars(dm).items():
        if n.endswith("_distance") and callable(f):
            cands.add(n[: -len("_distance")])
    # the names the whitelist advertises in its error message
    try:
        o = OPF.__new__(OPF)
        OPF.distance.fset(o, "__definitely_not_a_metric__")
    except Exception as ex:
        import re
        cands.update(re.findall(r"`([a-z0-9_]+)`", str(ex)))
    cands.discard("distance")
    cands.update(["", "Euclidean", "euclidean ", "l2", "squared_euclidean_distance", "minkowski"])
    cands.update(NAMES)
    for nm in NAMES:                       # near-miss spellings of real identifiers are not identifiers
        cands.update([nm.replace("_", "-"), nm.upper(), " " + nm, nm + "_"] if "_" in nm else [nm.upper(), nm.capitalize()])
    return sorted(cands)


def _check_registry(case, res):
    import opfython.math.distance as dm
    import opfython.models.knn_supervised as mk
    import opfython.models.semi_supervised as ms
    import opfython.models.supervised as mv
    import opfython.models.unsupervised as mu
    import opfython.utils.exception as e

    classes = {"SupervisedOPF": mv.SupervisedOPF, "SemiSupervisedOPF": ms.SemiSupervisedOPF,
               "KNNSupervisedOPF": mk.KNNSupervisedOPF, "UnsupervisedOPF": mu.UnsupervisedOPF}
    rng = np.random.default_rng(case["probe"])
    if set(dm.DISTANCES) != set(NAMES):
        res.violate("registry", "C06/registry-set", f"registry identifiers differ from the 47 fixed ones: {sorted(set(dm.DISTANCES) ^ set(NAMES))}")
    for cand in _candidates():
        in_reg = cand in dm.DISTANCES
        for cname, cls in classes.items():
            try:
                m = cls(distance=cand)
                accepted = True
            except (e.TypeError, e.ValueError, KeyError, TypeError, ValueError):
                accepted = False
            if accepted != in_reg:
                res.violate("registry", "C06/whitelist-registry-drift",
                            f"{cname}(distance={cand!r}) accepted={accepted} but in registry={in_reg}")
                continue
            if not accepted:
                res.see("registry_reject_checked")
                continue
            res.see("registry_accept_checked")
            if m.distance_fn is not dm.DISTANCES[cand]:
                res.violate("registry", "C06/option-resolves-elsewhere", f"{cname}(distance={cand!r}).distance_fn is not DISTANCES[{cand!r}]")
            if m.distance != cand:
                res.violate("registry", "C06/option-resolves-elsewhere", f"{cname}(distance={cand!r}).distance == {m.distance!r}")
            if cand in T and cname == "SupervisedOPF":
                kind = T[cand][1]
                x, y = dom_vec(rng, kind, 5), dom_vec(rng, kind, 5)
                ref, mag = reference(cand, x.tolist(), y.tolist())
                got = float(m.distance_fn(x.copy(), y.copy()))
                if not abs(got - ref) <= 1e-7 * abs(ref) + 1e-8 * mag + 1e-9:
                    res.violate("registry", "C06/option-value", f"{cname}(distance={cand!r}).distance_fn gives {got!r}, closed form {ref!r}")
    res.nontrivial = True
    res.cell("registry")
    return res


def shrink(case):
    if case.get("registry"):
        return
    x, y = case["x"], case["y"]
    for i in range(len(x)):
        if len(x) > 1:
            yield {**case, "x": x[:i] + x[i + 1:], "y": y[:i] + y[i + 1:]}


def extra(tier, seed, shard=0, nshards=1):
    """Sanitizer pass (thorough tier, shard 0): every metric re-run with numba's bounds checking on, in a subprocess with a
    private cache; an IndexError there is an out-of-range access in compiled code; values must equal the unchecked run."""
    import json
    import os
    import shutil
    import subprocess
    import sys
    import tempfile

    if tier != "thorough" or shard != 0:
        return []
    res = Result()
    tmp = tempfile.mkdtemp(prefix="c06_bc_")
    try:
        docs = {}
        for mode in ("0", "1"):
            env = dict(os.environ)
            env["NUMBA_BOUNDSCHECK"] = mode
            if mode == "1":
                env["NUMBA_CACHE_DIR"] = os.path.join(tmp, "cache")
            try:
                pr = subprocess.run([sys.executable, "-m", "opfmon.boundscheck", str(seed)], env=env, cwd=tmp, timeout=900,
                                    capture_output=True, text=True)
                docs[mode] = json.loads(pr.stdout)
            except Exception as ex:  # noqa: BLE001 - the pass could not run: inconclusive for this sub-claim, never an alarm
                res.see("boundscheck_pass_failed_to_run")
                res.note = repr(ex)[:300]
                return [({"boundscheck_pass": "failed-to-run"}, res)]
        for name, d1 in docs["1"]["metrics"].items():
            res.see("boundscheck_metrics")
            res.see("boundscheck_evaluations", len(d1["values"]))
            idx_err = [e for e in d1["errors"] if "IndexError" in e]
            if idx_err and not docs["0"]["metrics"][name]["errors"]:
                res.violate("boundscheck", "C06/out-of-range-access-in-compiled-metric",
                            f"{name}: with NUMBA_BOUNDSCHECK=1 the compiled metric raises {idx_err[0]} (silent wild read otherwise)")
            elif d1["values"] != docs["0"]["metrics"][name]["values"]:
                res.violate("boundscheck", "C06/boundscheck-value-differs", f"{name}: values differ between bounds-checked and unchecked compilation")
        res.cell("boundscheck")
        return [({"boundscheck_pass": {"metrics": len(docs["1"]["metrics"])}}, res)]
    finally:
        shutil.rmtree(tmp, ignore_errors=True)
