"""C14 — KNN/unsupervised prediction follows the exhaustive k-nearest max-min rule."""
from __future__ import annotations

import math

import numpy as np

from .. import gen, knncase
from ..base import Result
from ..snap import is_library_domain_error, safe_call

ID = "C14"
RULE = ("Fitted KNNSupervisedOPF / UnsupervisedOPF models (C13's generators; k ranges up to n-1; safe metrics and every non-negative metric incl. the asymmetric ones; on-the-fly and pre-computed matrices with shuffled index subsets) and "
        "query batches of training copies, perturbations, midpoints, far points, lattice ties, predicted one per call and in one batch. Reference: "
        "distances from x to ALL training samples in the code's argument order; admissible k-nearest sets under ties at the k-th distance (closed form, "
        "no enumeration); density of x from the k smallest distances with the stored constant/min/max (divisors k and k+1 and a 1e-9 relative band "
        "both admitted); admissible results = label (and cluster) of any neighbour that can maximise min(cost, density) in some admissible set. "
        "The returned result must be admissible. Non-trivial: k>=2, >=2 distinct results among the k nearest and the query density strictly between "
        "two neighbour costs; distinct = case hash.")
RULE += (' For unsupervised models that had not propagated labels before, labels are propagated AFTER the first predictions and the batch is predicted and judged again.')
ASSUMPTIONS = [
    "the fitted model (costs, labels, clusters, constant, density range, best_k) is taken from the implementation (C12/C13/C16 judge it)",
    "the statement fixes neither the divisor (k or k+1) nor the guard epsilon of the range map: both divisors are admitted; models whose stored density range is empty (max==min) are skipped and counted",
    "queries with a non-finite distance are skipped and counted",
]
BUDGET = {
    "quick": {"cases": 7200, "seconds": 90, "shards": 8},
    "thorough": {"cases": 120000, "seconds": 900, "shards": 16},
}
REQUIRED_OBS = ["model_loaded_into_used_object", "predict_after_late_propagation", "exhaustive_small_graph_cases", "queries_judged:knn", "queries_judged:unsup", "tie_at_kth", "query_is_training_copy", "density_between_costs", "k>=2_queries",
                "multiple_admissible", "pre_computed_cases", "asymmetric_metric_cases"]
MIN_NONTRIVIAL = 100


def generate(rng, tier, idx):
    metrics = gen.SAFE_METRICS if idx % 3 else knncase.NONNEG_METRICS        # incl. asymmetric neyman / pearson / KL / K-divergence
    c = knncase.gen_knn_case(rng, tier, model=("knn" if idx % 2 else "unsup"), metrics=metrics, allow_pre=True)
    c["propagate"] = bool(rng.random() < 0.5)
    c["via_load"] = bool(rng.random() < 0.08)
    return c


def admissible(m, kind, dq):
    """Set of admissible results for one query with distances dq to all training nodes; info dict."""
    import opfython.utils.constants as c

    sg = m.subgraph
    k = int(sg.best_k)
    nodes = sg.nodes
    n = len(nodes)
    cost = np.array([float(nd.cost) for nd in nodes])
    result = [(int(nd.predicted_label), int(nd.cluster_label)) if kind == "unsup" else int(nd.predicted_label) for nd in nodes]
    ds = np.sort(dq)
    dk = ds[k - 1]
    S_lt = np.nonzero(dq < dk)[0]
    S_eq = np.nonzero(dq == dk)[0]
    need = k - len(S_lt)
    const, lo, hi = float(sg.constant), float(sg.min_density), float(sg.max_density)
    s = math.fsum(math.exp(-float(v) / const) for v in ds[:k])
    rhos = []
    for div in (k, k + 1):
        rho = (c.MAX_DENSITY - 1) * (s / div - lo) / (hi - lo + c.EPSILON) + 1
        rhos += [rho, rho * (1 - 1e-9) - 1e-12, rho * (1 + 1e-9) + 1e-12]
    cand = set(rhos)
    for t in list(S_lt) + list(S_eq):
        for a, b in ((rhos[1], rhos[2]), (rhos[4], rhos[5])):
            if min(a, b) <= cost[t] <= max(a, b):
                cand.add(cost[t])
    ok = set()
    between = False
    for rho in cand:
        v = np.minimum(cost, rho)
        base = v[S_lt].max() if len(S_lt) else -np.inf
        veq = np.sort(v[S_eq])
        for t in S_lt:
            if v[t] >= base and np.searchsorted(veq, v[t], side="right") >= need:
                ok.add(result[t])
        if need >= 1:
            for t in S_eq:
                if v[t] >= base and np.searchsorted(veq, v[t], side="right") - 1 >= need - 1:
                    ok.add(result[t])
    near = list(S_lt) + list(S_eq)
    rho0 = rhos[0]
    cs = cost[near]
    between = bool((cs < rho0).any() and (cs > rho0).any())
    info = {"tie": len(S_eq) > need, "k": k, "between": between, "distinct_results": len({result[t] for t in near}),
            "copy": bool(ds[0] == 0)}
    return ok, info


def check(case):
    res = Result()
    kind = case["model"]
    X, Y, V, YV, Q = knncase.arrays(case)
    n = len(X)
    if case["max_k"] > n - 1:
        return res.reject("max_k>n-1")
    m, call = knncase.fit_model(case)
    if not call.ok:
        if is_library_domain_error(call.exc):
            return res.reject("library-domain-error")
        res.see("fit_aborted:" + type(call.exc).__name__)
        return res.reject("fit-aborted")
    if case.get("via_load") and not case.get("pre"):
        # the judged model arrives by load() into an object of the same kind that was fitted on other data and has predicted
        import os
        import shutil
        import tempfile
        from ..snap import build_model
        tmp = tempfile.mkdtemp(prefix="c14_")
        try:
            safe_call(m.save, os.path.join(tmp, "b.pkl"))
            other = dict(case)
            other["X"] = (np.array(case["X"], dtype=float)[::-1] * 1.7 + 0.3).tolist()
            other["Y"] = case["Y"][::-1]
            other["refit"], other["kwcall"] = False, False
            other.pop("int_features", None)
            used, c0 = knncase.fit_model(other)
            if c0.ok:
                safe_call(used.predict, Q.copy())
                if safe_call(used.load, os.path.join(tmp, "b.pkl")).ok:
                    m = used
                    res.see("model_loaded_into_used_object")
        finally:
            shutil.rmtree(tmp, ignore_errors=True)
    sg = m.subgraph
    vals = [float(nd.cost) for nd in sg.nodes] + [float(sg.constant), float(sg.min_density), float(sg.max_density)]
    if not all(math.isfinite(v) for v in vals) or sg.constant <= 0:
        return res.reject("model-not-finite")
    if sg.max_density == sg.min_density:
        return res.reject("empty-density-range")
    if kind == "unsup" and case.get("propagate"):
        m.propagate_labels()
    pre = case.get("pre")
    IQ = np.array(pre["IQ"], dtype=int) if pre else None
    if pre:
        res.see("pre_computed_cases")
    from ..metrics_table import T as _T
    if "s" not in _T[case["metric"]][2] and not pre:
        res.see("asymmetric_metric_cases")
    DQ = knncase.query_distances(case, m, Q, IQ)
    single = []
    buf = np.empty((1, Q.shape[1]))          # ONE array object, refilled in place for every single-sample call
    ibuf = np.zeros(1, dtype=int)
    for x in range(len(Q)):
        buf[:] = Q[x]
        if IQ is not None:
            ibuf[:] = IQ[x]
        if IQ is None and case.get("I_onthefly"):
            ibuf[:] = case["I_onthefly"][0]          # every single-sample query carries the SAME identifier, different features
            c = safe_call(m.predict, buf, ibuf)
            res.see("onthefly_identifier_queries")
        else:
            c = safe_call(m.predict, buf, ibuf) if IQ is not None else safe_call(m.predict, buf)
        if not c.ok:
            res.violate("exception", f"C14/exception/predict/{kind}/{type(c.exc).__name__}", f"predict raised at {c.where}: {str(c.exc)[:200]}")
            return res
        single.append((int(c.value[0][0]), int(c.value[1][0])) if kind == "unsup" else int(c.value[0]))
    c = knncase.predict(case, m, Q, IQ)
    if not c.ok:
        res.violate("exception", f"C14/exception/predict/{kind}/{type(c.exc).__name__}", f"batch predict raised at {c.where}: {str(c.exc)[:200]}")
        return res
    batch = list(zip(map(int, c.value[0]), map(int, c.value[1]))) if kind == "unsup" else [int(v) for v in c.value]
    nontrivial = False
    late = kind == "unsup" and not case.get("propagate") and not case.get("I_onthefly")
    rounds = [("", single, batch)] + ([(" after a later propagate_labels", None, None)] if late else [])
    for rtag, single_r, batch_r in rounds:
      if rtag:
        # labels propagated AFTER the model has already predicted: the next prediction must follow the labels the model holds now
        m.propagate_labels()
        c2 = knncase.predict(case, m, Q, IQ)
        if not c2.ok:
            res.violate("exception", f"C14/exception/predict/{kind}/{type(c2.exc).__name__}", f"predict after propagate_labels raised at {c2.where}: {str(c2.exc)[:200]}")
            return res
        res.see("predict_after_late_propagation")
        batch_r = list(zip(map(int, c2.value[0]), map(int, c2.value[1])))
      for x in range(len(Q)):
        dq = DQ[x]
        if not np.all(np.isfinite(dq)):
            res.see("query_skipped_nonfinite")
            continue
        ok, info = admissible(m, kind, dq)
        if not rtag:
            res.see("queries_judged:" + kind)
            if info["tie"]:
                res.see("tie_at_kth")
            if info["copy"]:
                res.see("query_is_training_copy")
            if info["between"]:
                res.see("density_between_costs")
            if info["k"] >= 2:
                res.see("k>=2_queries")
            if len(ok) > 1:
                res.see("multiple_admissible")
            if info["k"] >= 2 and info["distinct_results"] >= 2 and info["between"]:
                nontrivial = True
        for tag, got in ((("single-sample call", single_r[x]),) if single_r is not None else ()) + (("batch call" + rtag, batch_r[x]),):
            if got not in ok:
                res.violate("rule", f"C14/result-not-admissible/{kind}",
                            f"{kind}/{case['metric']} k={info['k']}: query {x} ({tag}) returned {got}, the exhaustive k-nearest max-min rule admits only {sorted(ok)}")
                return res
    res.nontrivial = nontrivial
    res.cell(kind, case["metric"], case["gclass"], "k" + str(min(int(sg.best_k), 5)))
    return res


def shrink(case):
    q = case["Q"]
    for i in range(len(q) - 1, -1, -1):
        if len(q) > 1:
            yield {**case, "Q": q[:i] + q[i + 1:]}


def extra(tier, seed, shard=0, nshards=1):
    """Bounded-exhaustive pass: every symmetric weight matrix over {1,2[,3]} on 4..5 nodes (3..4 in the quick tier) x labellings,
    as pre-computed matrices with a reversed index array, for both models and the k ranges 1..1, 1..2, 2..n-1, 1..n-1."""
    out, agg, n_cases = [], Result(), 0
    for n, D, Y in gen.exhaustive_small_graphs(tier, shard, nshards):
        I = list(range(n))[::-1]
        DD = np.zeros((n, n))
        for a in range(n):
            for b in range(n):
                DD[I[a], I[b]] = D[a, b]
        ranges = sorted({(1, 1), (1, min(2, n - 1)), (min(2, n - 1), n - 1), (1, n - 1)})
        for model in ("unsup", "knn"):
            for lo, hi in ranges:
                case = {"model": model, "metric": "log_squared_euclidean", "gclass": "pre:EXH", "pattern": "exh",
                        "X": [[float(i)] for i in I], "Y": list(Y), "V": [[float(i)] for i in range(n)], "YV": [int(Y[I.index(i)]) for i in range(n)],
                        "Q": [[float(i)] for i in range(n)], "min_k": lo, "max_k": hi, "refit": False, "propagate": bool(n_cases % 2),
                        "pre": {"D": DD.tolist(), "I": I, "IV": list(range(n)) if model == "knn" else None, "IQ": list(range(n)), "kind": "EXH"}}
                if max(case["YV"]) < max(Y):
                    continue
                r = check(case)
                n_cases += 1
                if r.violations:
                    out.append((case, r))
                else:
                    agg.obs.update(r.obs)
    agg.see("exhaustive_small_graph_cases", n_cases)
    agg.cell("exhaustive-small-graphs", tier)
    out.append(({"exhaustive_small_graphs": {"tier": tier, "cases_this_shard": n_cases}}, agg))
    return out
