"""C05 — the indexed heap is a correct priority queue for every operation sequence.

Shape: history + executable model.  The REAL ``opfython.core.heap.Heap`` is driven with generated
operation sequences; a dict ``queued: id -> cost`` is the sequential model.  Every return value and
every is_empty/is_full/colour observation is judged against the model at the API boundary.
"""
from __future__ import annotations

import itertools
import sys

import numpy as np

from ..base import Result

ID = "C05"
RULE = ("Random op sequences (fill-drain / Dijkstra-like / random mixes; capacities 1..64 quick, ..200 thorough; "
        "both policies; cost alphabets {0,1,2}, small ints, Gaussian floats, +-FLOAT_MAX, multiples of 1e-21, multiples of 1e300, Python ints beyond 2**53; 1 in 5 heaps gets its policy through the public setter) plus a bounded exhaustive "
        "sweep of all legal sequences over capacity<=3, costs {0,1,2}, plus live traffic: real supervised / semi / KNN / unsupervised fits with an "
        "in-situ oracle on every Heap.remove (removed element has the extremal cost among all queued). Non-trivial: capacity>=3, >=2 successful "
        "removes and >=1 strictly improving update of a queued element; distinct = distinct op-sequence hash.")
RULE += (" Elements that were queued and returned are inserted again (op 'reins'; also after a complete drain; in the exhaustive sweep too); 6% of the heaps receive their costs as numpy scalars (uint8/16/64, int8, float32) while the model keeps Python ints." + " After a complete drain the policy may be switched through the public setter (op 'policy') and the history continues.")
ASSUMPTIONS = [
    "ids are inserted at most once (never re-inserted after removal) and updates only improve in the policy's direction or keep the cost — the statement's premise",
    "costs are set through heap.cost[p]=v before insert(p), the idiom every model uses; update(p,v) sets the cost itself",
    "only behaviour is judged (return values, emptiness/fullness, public colours); internal array layout is not",
]
BUDGET = {
    "quick": {"cases": 12000, "seconds": 90, "shards": 8},
    "thorough": {"cases": 300000, "seconds": 900, "shards": 16},
}
REQUIRED_OBS = ["reinsert_after_return", "policy_switched_on_emptied_heap", "numpy_scalar_costs", "remove_ok", "update_queued_improve", "insert_full_refused", "remove_empty_refused",
                "update_white_inserts", "tie_at_remove", "drained_heaps", "policy_via_setter", "continued_on_deepcopy", "capacity>=256", "exhaustive_sequences", "live_removes", "live_decrease_keys"]
MIN_NONTRIVIAL = 200

FLOAT_MAX = sys.float_info.max


def _heap_cls():
    from opfython.core.heap import Heap
    return Heap


def _consts():
    import opfython.utils.constants as c
    return c


# --------------------------------------------------------------------------- executor + oracle
def run_ops(size, policy, ops, res=None, drain=True, via_setter=False, cost_type=None):
    """Run `ops` on the real heap, judging each observation against the model.  Returns Result."""
    res = res or Result()
    c = _consts()
    Heap = _heap_cls()
    if via_setter:                      # the policy chosen through the public setter on a default-constructed heap
        h = Heap(size=size)
        h.policy = policy
        res.see("policy_via_setter")
    else:
        h = Heap(size=size, policy=policy)
    better = (lambda a, b: a < b) if policy == "min" else (lambda a, b: a > b)
    conv = (lambda v: v)
    if cost_type:                       # costs handed over as numpy scalars of a narrow / unsigned type (the model keeps Python ints)
        import numpy as _np
        conv = getattr(_np, cost_type)
        res.see("numpy_scalar_costs")
    queued = {}      # id -> cost   (the model)
    removed = []     # ids returned so far
    never = set(range(size))
    n_removes = n_improve = n_reins = 0

    def observe(tag):
        e, f = h.is_empty(), h.is_full()
        if e is not (len(queued) == 0) and e != (len(queued) == 0):
            res.violate("is_empty", "C05/is_empty", f"after {tag}: is_empty()={e!r} but model holds {len(queued)} queued")
        if f != (len(queued) == size):
            res.violate("is_full", "C05/is_full", f"after {tag}: is_full()={f!r} but model holds {len(queued)}/{size}")
        # public colours: WHITE never queued, GRAY queued, BLACK removed
        col = h.color
        for p in range(size):
            want = c.GRAY if p in queued else (c.BLACK if p in removed_set else c.WHITE)
            if col[p] != want:
                res.see("colour_convention_deviates")       # the statement does not fix the colour bookkeeping: observed, never a verdict
                break

    removed_set = set()
    for k, op in enumerate(ops):
        kind = op[0]
        tag = f"op#{k} {op}"
        if kind == "ins":                      # h.cost[p]=v ; h.insert(p)      p never queued
            _, p, v = op
            if p not in never or not (0 <= p < size):
                return res.reject("illegal-sequence")
            h.cost[p] = conv(v)
            r = h.insert(p)
            if r is not True:
                res.violate("insert", "C05/insert-result", f"{tag}: insert returned {r!r} on a non-full heap")
            queued[p] = v
            never.discard(p)
            res.see("insert_ok")
        elif kind == "reins":                  # an element that was queued and returned before is inserted again
            _, p, v = op
            if p not in removed_set or p in queued or len(queued) == size:
                return res.reject("illegal-sequence")
            h.cost[p] = conv(v)
            r = h.insert(p)
            if r is not True:
                res.violate("insert", "C05/insert-result", f"{tag}: insert of a previously returned element returned {r!r} on a heap holding {len(queued)}/{size}")
            queued[p] = v
            removed_set.discard(p)
            n_reins += 1
            res.see("reinsert_after_return")
        elif kind == "policy":                 # the policy is switched through the public setter while the (used) heap is empty
            if queued:
                return res.reject("illegal-sequence")
            policy = op[1]
            h.policy = policy
            better = (lambda a, b: a < b) if policy == "min" else (lambda a, b: a > b)
            res.see("policy_switched_on_emptied_heap")
        elif kind == "upd":                    # h.update(p, v)
            _, p, v = op
            if p in removed_set or not (0 <= p < size) or (p in queued and better(queued[p], v)):
                return res.reject("illegal-sequence")
            if p in queued:
                if better(v, queued[p]):
                    n_improve += 1
                    res.see("update_queued_improve")
                else:
                    res.see("update_queued_equal")
                queued[p] = v
            else:
                queued[p] = v
                never.discard(p)
                res.see("update_white_inserts")
            h.update(p, conv(v))
        elif kind == "rem":
            r = h.remove()
            if not queued:
                if r is not False:
                    res.violate("remove-empty", "C05/remove-empty", f"{tag}: remove on empty returned {r!r}, expected False")
                res.see("remove_empty_refused")
            else:
                if r is False or isinstance(r, bool):
                    res.violate("remove", "C05/remove-result", f"{tag}: remove returned {r!r} with {len(queued)} queued")
                    break
                if r not in queued:
                    why = "already returned before" if r in removed_set else "never inserted"
                    res.violate("remove", "C05/remove-not-queued", f"{tag}: remove returned {r!r} which is {why}; queued={sorted(queued)}")
                    break
                best = min(queued.values()) if policy == "min" else max(queued.values())
                if queued[r] != best:
                    res.violate("remove", "C05/remove-not-extremal",
                                f"{tag}: remove returned {r} with cost {queued[r]!r}, extremal queued cost is {best!r}; queued={queued}")
                if sum(1 for x in queued.values() if x == best) > 1:
                    res.see("tie_at_remove")
                del queued[r]
                removed.append(r)
                removed_set.add(r)
                n_removes += 1
                res.see("remove_ok")
        elif kind == "deepcopy":
            import copy
            old = h
            h = copy.deepcopy(h)
            for t in range(size):          # the abandoned original is scribbled on: the copy must not share anything with it
                old.cost[t] = -1.0 if policy == "min" else 1e300
            res.see("continued_on_deepcopy")
        elif kind == "ins_full":               # insert when every slot is queued -> False, nothing changes
            _, p = op
            if len(queued) != size:
                return res.reject("illegal-sequence")
            r = h.insert(p)
            if r is not False:
                res.violate("insert-full", "C05/insert-full", f"{tag}: insert on a full heap returned {r!r}")
            res.see("insert_full_refused")
        else:
            raise ValueError(op)
        observe(tag)
        if res.violations:
            return res
    if drain:
        while queued:
            r = h.remove()
            if r is False or isinstance(r, bool) or r not in queued:
                res.violate("drain", "C05/drain-lost", f"drain: remove returned {r!r}; still queued in model: {sorted(queued)}")
                return res
            best = min(queued.values()) if policy == "min" else max(queued.values())
            if queued[r] != best:
                res.violate("drain", "C05/remove-not-extremal", f"drain: removed {r} cost {queued[r]!r}, extremal is {best!r}")
                return res
            del queued[r]
            removed.append(r)
            removed_set.add(r)
            n_removes += 1
            res.see("remove_ok")
        observe("drain")
        if h.remove() is not False:
            res.violate("drain", "C05/remove-empty", "remove after drain did not return False")
        if len(removed) != len(set(removed)) + n_reins:
            res.violate("drain", "C05/returned-twice", f"an id was returned more often than it was inserted: {removed} ({n_reins} re-insertions)")
        res.see("drained_heaps")
    if size >= 256:
        res.see("capacity>=256")
    res.nontrivial = size >= 3 and n_removes >= 2 and n_improve >= 1
    res.see("ops", len(ops))
    res.cell(policy, "size" + str(min(size, 8) if size <= 8 else (16 if size <= 16 else (64 if size <= 64 else 200))))
    return res


# --------------------------------------------------------------------------- generation
def _cost_source(rng, policy):
    kind = rng.integers(0, 9)
    if kind == 8:      # infinite costs are costs too
        return lambda: float(rng.choice([0.0, 1.0, float("inf"), float("-inf"), 2.0]))
    if kind == 7:      # integer costs beyond 2**53: exact as Python ints, not as floats
        return lambda: int(2 ** 53 + int(rng.integers(0, 9)))
    if kind == 5:      # costs far below any absolute epsilon: ordering must still be exact
        return lambda: float(rng.integers(0, 6)) * 1e-21
    if kind == 6:      # huge costs
        return lambda: float(rng.integers(-3, 6)) * 1e300
    if kind == 0:
        return lambda: float(rng.integers(0, 3))
    if kind == 1:
        return lambda: float(rng.integers(-5, 20))
    if kind == 2:
        return lambda: float(rng.normal())
    if kind == 3:
        return lambda: float(rng.choice([0.0, 1.0, FLOAT_MAX, -FLOAT_MAX, 0.5]))
    return lambda: float(np.round(rng.normal(), 1))


def generate(rng, tier, idx):
    maxsize = 64 if tier == "quick" else 200
    size = int(rng.choice([1, 2, 3, 4, 5, 7, 8, 15, 16, 17, 31, 33, maxsize, int(rng.integers(1, maxsize + 1))]))
    if rng.random() < 0.02:
        size = int(rng.choice([256, 257, 258, 300]))          # capacities around CPython's small-int cache
    policy = "min" if rng.random() < 0.5 else "max"
    policy0 = policy
    draw = _cost_source(rng, policy)
    cost_type = None
    if rng.random() < 0.06:
        cost_type = str(rng.choice(["uint8", "uint16", "uint64", "int8", "float32"]))
        draw = (lambda: int(rng.integers(0, 100)))
    mode = int(rng.integers(0, 3))
    sign = 1.0 if policy == "min" else -1.0
    queued, white, again = {}, list(range(size)), []
    rng.shuffle(white)
    ops = []
    refill = rng.random() < 0.15          # drain completely now and then, and start again with ids that were already returned
    nops = int(rng.integers(4, 6 * size + 12))

    def improve(p):
        cur = queued[p]
        r = rng.random()
        if r < 0.2:
            return cur
        if isinstance(cur, int):            # integer costs stay exact integers
            nv = cur - int(sign) * int(rng.integers(1, 4))
            return min(max(nv, 0), 120) if cost_type else nv
        step = abs(draw()) + (1.0 if rng.random() < 0.5 else 0.0)
        v = cur - sign * step
        if not np.isfinite(v):
            v = cur
        return float(v)

    for _ in range(nops):
        r = rng.random()
        if mode == 0:      # fill then drain
            want = "ins" if white and len(ops) < size * 2 and r < 0.8 else ("upd" if r < 0.3 else "rem")
        elif mode == 1:    # Dijkstra-like: remove one, update many
            want = "rem" if r < 0.25 else ("upd" if r < 0.85 else "ins")
        else:
            want = ("ins", "upd", "rem")[int(rng.integers(0, 3))]
        if len(queued) == size and rng.random() < 0.15:
            ops.append(["ins_full", int(rng.integers(0, size))])
            continue
        if refill and not queued and ops and rng.random() < 0.35:
            policy = "max" if policy == "min" else "min"
            sign = -sign
            ops.append(["policy", policy])
        if refill and not queued and again and rng.random() < 0.8:
            for p in list(again)[::-1] if rng.random() < 0.5 else list(again):
                v = draw()
                queued[p] = v
                ops.append(["reins", int(p), v])
            again = []
            continue
        if want == "ins" and again and len(queued) < size and rng.random() < 0.4:
            p = again.pop(int(rng.integers(0, len(again))))
            v = draw()
            queued[p] = v
            ops.append(["reins", int(p), v])
            continue
        if refill and want == "ins" and len(ops) > size:
            want = "rem"
        if want == "ins":
            if not white:
                want = "upd"
            else:
                p = white.pop()
                v = draw()
                queued[p] = v
                ops.append(["ins", int(p), v])
                continue
        if want == "upd":
            if queued and (not white or rng.random() < 0.75):
                p = int(rng.choice(sorted(queued)))
                v = improve(p)
                queued[p] = v
                ops.append(["upd", p, v])
            elif white:
                p = white.pop()
                v = draw()
                queued[p] = v
                ops.append(["upd", int(p), v])
            continue
        # remove: the generator tracks only *which set* is queued; it must know which id leaves to stay legal,
        # so it removes the model-extremal one when unique and otherwise stops tracking ties by re-deriving below.
        if not queued:
            ops.append(["rem"])
            continue
        best = min(queued.values()) if policy == "min" else max(queued.values())
        cands = [p for p, v in queued.items() if v == best]
        if len(cands) == 1:
            del queued[cands[0]]
            ops.append(["rem"])
            if rng.random() < 0.6:
                again.append(cands[0])
        else:
            # tie: any of cands may leave.  Keep the sequence legal whichever leaves: afterwards only touch
            # ids outside cands until the tie group is gone -> simplest: remove the whole tie group now.
            for _ in cands:
                ops.append(["rem"])
            for p in cands:
                del queued[p]
                if rng.random() < 0.6:
                    again.append(p)
    if rng.random() < 0.1 and len(ops) > 3:
        ops.insert(int(rng.integers(1, len(ops))), ["deepcopy"])       # the history continues on a deep copy of the heap
    if size >= 256:
        # make sure the big heap gets full at least once
        ops = [["ins", int(p), float(rng.integers(0, 5))] for p in range(size)] + [["ins_full", 0], ["rem"], ["rem"]]
    return {"size": size, "policy": policy0, "ops": ops, "via_setter": bool(rng.random() < 0.2), "cost_type": cost_type}


def check(case):
    if case.get("live"):
        return _live(case)
    if "exhaustive_sweep" in case:
        return Result()
    return safe_run_ops(int(case["size"]), case["policy"], case["ops"], via_setter=bool(case.get("via_setter")), cost_type=case.get("cost_type"))


def safe_run_ops(size, policy, ops, drain=True, via_setter=False, cost_type=None):
    """run_ops, with an exception escaping the heap on a LEGAL sequence reported as what it is: an operation that delivered nothing."""
    res = Result()
    try:
        return run_ops(size, policy, ops, res=res, drain=drain, via_setter=via_setter, cost_type=cost_type)
    except (IndexError, RecursionError, TypeError, ValueError, KeyError, AttributeError, ZeroDivisionError, OverflowError) as ex:
        import traceback
        frames = [f for f in traceback.extract_tb(ex.__traceback__) if "heap.py" in f.filename]
        if not frames:
            raise          # not raised by the heap: a harness bug, to be reported as such
        if res.rejected is None:
            res.violate("exception", f"C05/exception/{type(ex).__name__}",
                        f"a heap operation raised {type(ex).__name__} at heap.py:{frames[-1].lineno} in {frames[-1].name} on a legal sequence ({len(ops)} ops, capacity {size}, {policy})")
        return res


def _live(case):
    """Live traffic: a real model fit with the in-situ priority-queue oracle on every Heap.remove (the element removed
    must have the extremal cost among all queued elements) — min-policy heaps in Prim / the competition, max-policy
    heaps in the density clustering."""
    from .. import hooks, knncase, supcase

    res = Result()
    rec = hooks.Recorder()
    with hooks.patched(rec, hooks.heap_targets()):
        if case["live"] == "sup":
            o = supcase.run_case(case["model_case"], with_prim_hook=False, with_heap_hooks=False)
            ok = o.fit.ok
        else:
            _m, call = knncase.fit_model(case["model_case"])
            ok = call.ok
    res.see("live_fits")
    res.see("live_removes", rec.count("heap_remove"))
    res.see("live_decrease_keys", rec.count("heap_update_gray"))
    for msg in rec.of("heap_live_violation"):
        res.violate("live", "C05/remove-not-extremal", f"during a real {case['live']} fit: {msg}")
        break
    if not ok:
        res.see("live_fit_aborted")
    res.nontrivial = False
    res.cell("live", case["live"])
    return res


def shrink(case):
    ops = case["ops"]
    n = len(ops)
    # drop suffixes first, then single ops
    for cut in (n // 2, n - n // 4, n - 1):
        if 0 < cut < n:
            yield {**case, "ops": ops[:cut]}
    for i in range(n - 1, -1, -1):
        if ops[i][0] in ("upd", "ins_full") or (ops[i][0] == "rem"):
            yield {**case, "ops": ops[:i] + ops[i + 1:]}


# --------------------------------------------------------------------------- bounded exhaustive sweep
def _legal_next(size, policy, queued, white, alphabet):
    yield ("rem",)
    for p in sorted(white):
        for v in alphabet:
            yield ("ins", p, v)
            yield ("upd", p, v)
    for p, cur in sorted(queued.items()):
        for v in alphabet:
            if (policy == "min" and v <= cur) or (policy == "max" and v >= cur):
                yield ("upd", p, v)
    if len(queued) == size:
        yield ("ins_full", 0)
    else:
        for p in range(size):                   # ids that were queued and returned before may be inserted again
            if p not in white and p not in queued:
                yield ("reins", p, alphabet[1])


def _live_cases(tier, seed, shard, nshards):
    from .. import gen, knncase, supcase
    from ..shard import case_rng

    n = 40 if tier == "quick" else 400
    for i in range(shard, n, nshards):
        rng = case_rng(seed, "C05", 10_000_000 + i)
        if i % 2 == 0:
            mc = supcase.gen_case(rng, tier, semi=bool(i % 4 == 2), metrics=gen.SAFE_METRICS, nq=1)
            yield {"live": "sup", "model_case": mc}
        else:
            mc = knncase.gen_knn_case(rng, tier, metrics=gen.SAFE_METRICS)
            if mc["max_k"] <= len(mc["X"]) - 1:
                yield {"live": "knn", "model_case": mc}


def extra(tier, seed, shard=0, nshards=1):
    out = _exhaustive(tier, seed, shard, nshards)
    for case in _live_cases(tier, seed, shard, nshards):
        out.append((case, _live(case)))
    return out


def _exhaustive(tier, seed, shard=0, nshards=1):
    """All legal sequences up to length L over capacity<=3 and costs {0,1,2}; ties at remove are followed
    on the REAL heap's choice (the sequence is replayed from scratch, so the model stays exact)."""
    L = 5 if tier == "quick" else 7
    alphabet = (0.0, 1.0, 2.0)
    out = []
    combos = [(s, pol) for s in (1, 2, 3) for pol in ("min", "max")]
    for ci, (size, policy) in enumerate(combos):
        agg = Result()
        n_seq = 0
        first_ops = list(_legal_next(size, policy, {}, set(range(size)), alphabet))
        for fi, first in enumerate(first_ops):
            if (ci * 131 + fi) % nshards != shard:
                continue
            stack = [[list(first)]]
            while stack:
                seq = stack.pop()
                r = safe_run_ops(size, policy, seq, drain=True)
                n_seq += 1
                if r.violations:
                    out.append(({"size": size, "policy": policy, "ops": [list(o) for o in seq]}, r))
                    continue
                agg.obs.update(r.obs)
                if len(seq) >= L:
                    continue
                # recompute model state after seq, following the real heap's tie choices
                queued, white = _model_after(size, policy, seq)
                if queued is None:
                    continue
                for nxt in _legal_next(size, policy, queued, white, alphabet):
                    stack.append(seq + [list(nxt)])
        agg.see("exhaustive_sequences", n_seq)
        agg.nontrivial = False
        agg.cell("exhaustive", policy, f"size{size}", f"len<={L}")
        out.append(({"exhaustive_sweep": {"size": size, "policy": policy, "max_len": L, "sequences": n_seq}}, agg))
    return out


def _model_after(size, policy, seq):
    Heap = _heap_cls()
    h = Heap(size=size, policy=policy)
    queued, white = {}, set(range(size))
    for op in seq:
        if op[0] == "ins":
            h.cost[op[1]] = op[2]
            h.insert(op[1])
            queued[op[1]] = op[2]
            white.discard(op[1])
        elif op[0] == "upd":
            h.update(op[1], op[2])
            queued[op[1]] = op[2]
            white.discard(op[1])
        elif op[0] == "rem":
            r = h.remove()
            if r is not False and r in queued:
                del queued[r]
        elif op[0] == "reins":
            h.cost[op[1]] = op[2]
            h.insert(op[1])
            queued[op[1]] = op[2]
        elif op[0] == "ins_full":
            h.insert(op[1])
    return queued, white
