"""C09 — a prediction depends only on the fitted model and the sample itself."""
from __future__ import annotations

import os
import shutil
import tempfile

import numpy as np

from .. import gen
from ..base import Result
from ..metrics_table import T
from ..snap import build_model, is_library_domain_error, safe_call

ID = "C09"
RULE = ("One fitted model per case (four kinds; safe metrics and all symmetric dissimilarities; on-the-fly and pre-computed) and a pool of uniquely "
        "identified query rows (training copies, perturbations, midpoints, outliers, rows at 1e200 whose distances all overflow). Each row is predicted: in the full batch, alone, at every "
        "position of random sub-batches, in permuted batches, beside duplicates of itself, after earlier predict calls, in batches longer than the "
        "training set, and - directed - as a copy of training row i placed at batch position i. All (label[, cluster]) results of one row must be "
        "equal. Non-trivial: some row predicted at >=3 distinct positions including one < n_train and one training copy at position = its training "
        "index; distinct = case hash.")
ASSUMPTIONS = [
    "pre-computed models: a sample's identity is its matrix index (same index => same sample)",
    "max_k <= n_train-1; a model whose fit raises is skipped and counted",
]
BUDGET = {
    "quick": {"cases": 6400, "seconds": 90, "shards": 8},
    "thorough": {"cases": 120000, "seconds": 900, "shards": 16},
}
REQUIRED_OBS = ["identifiers_beside_feature_metric", "propagate_twin_compared", "extreme_query_rows", "rows_compared", "kind:supervised", "kind:semi", "kind:knn", "kind:unsup", "train_copy_at_own_index", "batch_longer_than_train",
                "pre_computed_cases", "after_earlier_predicts"]
MIN_NONTRIVIAL = 100
KINDS = ["supervised", "semi", "knn", "unsup"]


def generate(rng, tier, idx):
    kind = KINDS[idx % 4]
    name = gen.pick(rng, gen.SAFE_METRICS) if rng.random() < 0.6 else gen.pick(rng, gen.SYMMETRIC_DISSIMILARITIES)
    dom = T[name][1]
    n = int(rng.integers(3, 15 if tier == "quick" else 30))
    d = int(rng.integers(1, 5))
    nv = int(rng.integers(2, 7))
    A = gen.to_domain(gen.make_dataset(rng, n + nv, d, gen.pick(rng, ["G1", "G2", "G3", "G6"])), dom)
    X, V = A[:n], A[n:]
    Y = gen.make_labels(rng, X, gen.pick(rng, ["random", "blob", "alternate"]), K=int(rng.integers(2, 5)))
    YV = rng.integers(0, int(Y.max()) + 1, size=nv)
    YV[0] = int(Y.max())
    max_k = int(rng.integers(1, min(5, n - 1) + 1))
    pool = gen.to_domain(gen.make_queries(rng, A, int(rng.integers(3, 9))), dom)
    if rng.random() < 0.4 and len(pool) >= 3:
        # near-duplicate queries on opposite sides of a class boundary: the midpoint of two differently labelled training rows
        # moved by +-1e-9 of their difference (two DIFFERENT samples that agree to ~8 significant digits)
        for _ in range(6):
            a, b = int(rng.integers(0, n)), int(rng.integers(0, n))
            if Y[a] != Y[b]:
                mid, dif = (X[a] + X[b]) / 2.0, (X[a] - X[b])
                pool[0], pool[1] = mid + 1e-9 * dif, mid - 1e-9 * dif
                break
    if rng.random() < 0.15:
        pool[int(rng.integers(0, len(pool))), int(rng.integers(0, d))] = np.nan        # a row with a missing value is still one row
    if rng.random() < 0.35:
        # rows so far away that every distance overflows to inf: the result must still be a function of the row alone
        pool[int(rng.integers(0, len(pool)))] = 1e200
        if len(pool) > 2 and rng.random() < 0.5:
            pool[int(rng.integers(0, len(pool)))] = 1e200
    pre = None
    if rng.random() < 0.25:
        if kind == "knn":
            N, I, IV = n, rng.permutation(n), rng.integers(0, n, size=nv)
        elif kind == "semi":
            N = n + nv + 3
            I, IV = rng.permutation([i for i in range(N) if not (n <= i < n + nv)])[:n], None
        else:
            N, IV = n + 4, None
            I = rng.permutation(N)[:n]
        D = gen.make_matrix(rng, N, gen.pick(rng, ["M1", "M2", "M3"]))
        pre = {"D": D.tolist(), "I": [int(i) for i in I], "IV": None if IV is None else [int(i) for i in IV], "N": int(N)}
    return {"kind": kind, "metric": name, "X": X.tolist(), "Y": Y.tolist(), "V": V.tolist(), "YV": [int(v) for v in YV],
            "pool": pool.tolist(), "ids_onthefly": bool(rng.random() < 0.2), "max_k": max_k, "min_k": int(rng.integers(1, max_k + 1)), "pre": pre, "sched_seed": int(rng.integers(0, 1 << 30))}


def _fit(case, m):
    X, Y = np.array(case["X"], dtype=float), np.array(case["Y"], dtype=int)
    V, YV = np.array(case["V"], dtype=float), np.array(case["YV"], dtype=int)
    pre = case["pre"]
    I = np.array(pre["I"], dtype=int) if pre else None
    if case["kind"] == "supervised":
        return safe_call(m.fit, X, Y, I)
    if case["kind"] == "semi":
        return safe_call(m.fit, X, Y, V, I)
    if case["kind"] == "knn":
        return safe_call(m.fit, X, Y, V, YV, I, np.array(pre["IV"], dtype=int) if pre else None)
    return safe_call(m.fit, X, Y, I)


def check(case):
    res = Result()
    kind, name, pre = case["kind"], case["metric"], case["pre"]
    X = np.array(case["X"], dtype=float)
    n, d = X.shape
    tmp = tempfile.mkdtemp(prefix="c09_")
    try:
        pre_file = None
        if pre:
            pre_file = os.path.join(tmp, "d.txt")
            np.savetxt(pre_file, np.array(pre["D"], dtype=float))
        m = build_model(kind, name, pre=pre_file, max_k=case["max_k"], min_k=case["min_k"])
    finally:
        shutil.rmtree(tmp, ignore_errors=True)
    f = _fit(case, m)
    if not f.ok:
        if is_library_domain_error(f.exc):
            return res.reject("library-domain-error")
        res.see("fit_aborted:" + type(f.exc).__name__)
        return res.reject("fit-aborted")
    rng = np.random.default_rng(case["sched_seed"])
    # ---- the rows: id -> (features, matrix index)
    rows = {}
    if pre:
        N = pre["N"]
        ids = list(range(N))          # every matrix index is a sample; training ones are "training copies"
        for i in ids:
            rows[i] = (np.array([float(i)] * d), i)
        train_ids = {int(I): pos for pos, I in enumerate(pre["I"])}   # id -> training position
        res.see("pre_computed_cases")
    else:
        pool = np.array(case["pool"], dtype=float).reshape(-1, d)
        for i in range(n):
            rows["t%d" % i] = (X[i].copy(), None)
        for j in range(len(pool)):
            rows["q%d" % j] = (pool[j].copy(), None)
        train_ids = {"t%d" % i: i for i in range(n)}
    if not pre and case.get("ids_onthefly"):
        res.see("identifiers_beside_feature_metric")
    if not pre and any(np.any(np.abs(v[0]) >= 1e150) for v in rows.values()):
        res.see("extreme_query_rows")
    ids = list(rows)
    seen = {i: {} for i in ids}        # id -> {result: first context}
    positions = {i: set() for i in ids}
    calls = [0]

    reuse = {}

    def run(batch, ctx):
        Xb = np.array([rows[i][0] for i in batch], dtype=float).reshape(len(batch), d)
        if len(batch) in reuse:              # same array object as an earlier call of this batch length, refilled in place
            reuse[len(batch)][:] = Xb
            Xb = reuse[len(batch)]
        else:
            reuse[len(batch)] = Xb
        if pre:
            Ib = np.array([rows[i][1] for i in batch], dtype=int)
            if ("I", len(batch)) in reuse:       # the index buffer too is one object refilled in place
                reuse[("I", len(batch))][:] = Ib
                Ib = reuse[("I", len(batch))]
            else:
                reuse[("I", len(batch))] = Ib
            c = safe_call(m.predict, Xb, Ib)
        elif case.get("ids_onthefly"):
            c = safe_call(m.predict, Xb, np.full(len(batch), 3, dtype=int))       # one identifier for every row, beside a feature metric
        else:
            c = safe_call(m.predict, Xb)
        calls[0] += 1
        if not c.ok:
            return c
        if kind == "unsup":
            out = list(zip(map(int, c.value[0]), map(int, c.value[1])))
        else:
            out = [int(v) for v in c.value]
        if len(out) != len(batch):
            res.violate("shape", "C09/prediction-count", f"{len(out)} results for a batch of {len(batch)}")
            return c
        for pos, (i, r) in enumerate(zip(batch, out)):
            seen[i].setdefault(r, f"{ctx} (position {pos} of {len(batch)}, call #{calls[0]})")
            positions[i].add(pos)
        return c

    schedule = []
    schedule.append((list(ids), "full batch"))
    for i in ids:
        schedule.append(([i], "alone"))
    # directed: training copies at batch position = training index (fill other slots with arbitrary rows)
    order = [None] * n
    for i, pos in train_ids.items():
        order[pos] = i
    if all(o is not None for o in order):
        schedule.append((list(order), "training copies at their own training index"))
        shifted = order[1:] + order[:1]
        schedule.append((shifted, "training copies shifted by one"))
    for _ in range(4):
        k = int(rng.integers(1, len(ids) + 1))
        schedule.append(([ids[int(t)] for t in rng.choice(len(ids), size=k, replace=False)], "random sub-batch"))
    schedule.append(([ids[int(t)] for t in rng.permutation(len(ids))], "permuted full batch"))
    dup = [ids[int(t)] for t in rng.integers(0, len(ids), size=len(ids))]
    schedule.append((dup + dup[:2], "batch with duplicates"))
    long = [ids[int(t)] for t in rng.integers(0, len(ids), size=2 * n + 3)]
    schedule.append((long, "batch longer than the training set"))
    res.see("batch_longer_than_train")
    schedule.append((list(ids), "full batch again after earlier predicts"))
    res.see("after_earlier_predicts")
    twin = None
    if kind == "unsup":
        import copy
        twin = copy.deepcopy(m)          # the same fitted model, never asked to predict before its labels are propagated
    for batch, ctx in schedule:
        c = run(batch, ctx)
        if res.violations:
            return res
        if not c.ok:
            if is_library_domain_error(c.exc):
                return res.reject("library-domain-error")
            res.violate("exception", f"C09/exception/predict/{kind}/{type(c.exc).__name__}", f"{kind}/{name}: predict raised for '{ctx}' at {c.where}: {str(c.exc)[:200]}")
            return res
    res.see("kind:" + kind)
    for i in ids:
        res.see("rows_compared")
        if len(seen[i]) > 1:
            items = list(seen[i].items())
            where = "training copy" if i in train_ids else "query"
            res.violate("independence", f"C09/position-dependent/{kind}",
                        f"{kind}/{name} ({'pre-computed' if pre else 'on-the-fly'}): row {i} ({where}) predicted {items[0][0]} in {items[0][1]} but {items[1][0]} in {items[1][1]}")
            return res
    if twin is not None:
        # label propagation changes the model; afterwards a prediction must not depend on predictions made BEFORE it
        m.propagate_labels()
        twin.propagate_labels()
        full = list(ids)
        Xb = np.array([rows[i][0] for i in full], dtype=float).reshape(len(full), d)
        Ib = np.array([rows[i][1] for i in full], dtype=int) if pre else None
        a = safe_call(m.predict, Xb.copy(), Ib.copy()) if pre else safe_call(m.predict, Xb.copy())
        b = safe_call(twin.predict, Xb.copy(), Ib.copy()) if pre else safe_call(twin.predict, Xb.copy())
        res.see("propagate_twin_compared")
        if a.ok and b.ok and ([list(map(int, v)) for v in a.value] != [list(map(int, v)) for v in b.value]):
            res.violate("independence", "C09/depends-on-predictions-before-propagate/unsup",
                        f"unsup/{name}: after propagate_labels the model that had predicted before returns {[list(map(int, v)) for v in a.value]}, "
                        f"an identical model that had not returns {[list(map(int, v)) for v in b.value]}")
            return res
    own = any(i in train_ids and train_ids[i] in positions[i] for i in ids)
    if own:
        res.see("train_copy_at_own_index")
    res.nontrivial = own and any(len(positions[i]) >= 3 and min(positions[i]) < n for i in ids)
    res.cell(kind, name, "pre" if pre else "fly")
    return res
