"""C17 — learning conserves samples and keeps the best model; pruning only discards."""
from __future__ import annotations

import itertools

import numpy as np

from .. import gen, hooks, supcase
from ..base import Result
from ..metrics_table import T
from ..snap import build_model, fhex, forest_snapshot, is_library_domain_error, safe_call, snapshot_diff
from .c03 import admissible

ID = "C17"
RULE = ("Three workloads on SupervisedOPF. relevance: fit + one predict(batch) on C01-style sets (metrics, matrices, ties): the flagged set must "
        "equal the union over queries of (conqueror + all its ancestors), the conqueror being an exhaustive arg-min of max(cost,d); non-unique "
        "arg-mins are resolved existentially (<=64 combinations, else counted ambiguous). learn: overlapping-class sets with 1..10 iterations and a "
        "seeded global RNG; the multiset of (row bytes, label) over train+validation and both sizes must be unchanged afterwards (also when learn "
        "raises), and the forest left in the object (incl. node features) must equal the forest of an iteration whose validation accuracy (observed "
        "at opf_accuracy) is maximal. prune: each re-fit's training multiset == the rows flagged relevant in the previous forest, final nodes a "
        "sub-multiset of the original (row,label) pairs. Non-trivial: relevance - a flagged non-conqueror ancestor and an unflagged sample; learn - "
        ">=1 swap executed and >=2 iterations; prune - >=1 sample discarded; distinct = case hash.")
RULE += (" learn: 6% of the cases use int64 features around 2^60 (exact byte multisets), 8% inject extreme admissible outcomes of numpy's global uniform generator (largest double below high / exactly low / alternating). One designed relevance run per check with a ~1100-deep optimum path." + ' prune: the rows a re-fit may train on are judged against the relevance flags frozen at the exit of the last prediction pass (sub-multiset).')
ASSUMPTIONS = [
    "prune aborting after a class has vanished from the relevant set (single-class refit) is counted 'aborted'; the discard-only claim is still checked on every refit that happened",
    "learn's random swap partner comes from numpy's global RNG, seeded per case for replay",
    "a swap is detected from the caller's arrays (train/validation rows exchanged), iterations from the public opf_accuracy calls",
]
BUDGET = {
    "quick": {"cases": 8400, "seconds": 90, "shards": 8},
    "thorough": {"cases": 300000, "seconds": 900, "shards": 16},
}
REQUIRED_OBS = ["int64_beyond_2^53_cases", "extreme_rng_outcomes", "deep_path_case", "layout:fortran", "layout:column-slice", "learn_with_precomputed_matrix", "big_validation_case", "predict_after_learn_checked", "relevance_checked", "learn_conservation_checked", "learn_best_model_checked", "learn_swaps_executed", "learn_best_not_last",
                "prune_refit_checked", "prune_discarded", "first_in_order_conqueror"]
MIN_NONTRIVIAL = 100
NIL = -1


def generate(rng, tier, idx):
    part = ("relevance", "learn", "prune")[idx % 3]
    if part == "relevance":
        metrics = gen.SYMMETRIC_DISSIMILARITIES if idx % 2 else gen.SAFE_METRICS
        c = supcase.gen_case(rng, tier, metrics=metrics, max_n=30 if tier == "quick" else 70)
        c["part"] = part
        return c
    n = int(rng.integers(4, 25 if tier == "quick" else 50))
    nv = int(rng.integers(2, 16))
    d = int(rng.integers(1, 4))
    name = gen.pick(rng, gen.SAFE_METRICS)
    K = int(rng.integers(2, 4))
    A = gen.make_dataset(rng, n + nv, d, gen.pick(rng, ["G1", "G3", "G6", "G4"]))
    lab = gen.make_labels(rng, A, gen.pick(rng, ["random", "blob", "blob"]), K=K)
    if rng.random() < 0.5:       # label noise -> validation errors -> swaps
        flip = rng.random(len(lab)) < 0.25
        lab = np.where(flip, rng.integers(0, lab.max() + 1, size=len(lab)), lab)
    X, V, Y, YV = A[:n], A[n:], lab[:n].copy(), lab[n:].copy()
    _, Y = np.unique(Y, return_inverse=True)
    if Y.max() == 0:
        Y[0] = 1
    YV = np.minimum(YV, Y.max())
    YV[int(rng.integers(0, nv))] = int(Y.max())
    if part == "learn" and rng.random() < 0.1:
        YV = (YV + 1) % (Y.max() + 1)
        YV[0] = int(Y.max())
    case = {"part": part, "metric": name, "X": X.tolist(), "Y": [int(v) for v in Y], "V": V.tolist(), "YV": [int(v) for v in YV],
            "iters": int(rng.integers(0 if part == "prune" else 1, 11)), "rng_seed": int(rng.integers(0, 2 ** 31 - 1)),
            "layout": str(rng.choice(["c", "c", "fortran", "column-slice", "row-stride"])), "pre": None}
    if part == "learn" and rng.random() < 0.08:
        case["rng_extreme"] = str(rng.choice(["high", "low", "alternate"]))
    if part == "learn" and rng.random() < 0.06:
        Z = np.round(A * 3).astype(np.int64) + 2 ** 60 + rng.integers(0, 7, size=A.shape)
        case.update({"X": Z[:n].tolist(), "V": Z[n:].tolist(), "int64": True, "metric": gen.pick(rng, ["euclidean", "manhattan", "squared_euclidean", "chebyshev"])})
    elif part == "learn" and rng.random() < 0.15:
        N = max(n, nv)
        case["pre"] = {"D": gen.make_matrix(rng, N, gen.pick(rng, ["M1", "M2"])).tolist()}      # learn through a pre-computed matrix
    return case


def check(case):
    res = Result()
    if case["part"] == "relevance":
        return _relevance(case, res)
    if case["part"] == "learn":
        return _learn(case, res)
    return _prune(case, res)


# ------------------------------------------------------------------------------------------- relevance
def _closure(nodes, t):
    out = set()
    steps = 0
    while True:
        out.add(t)
        if nodes[t].pred == NIL or steps > len(nodes):
            return out
        t = nodes[t].pred
        steps += 1


def _relevance(case, res):
    import opfython.utils.constants as c

    if len(set(case["Y"])) < 2:
        return res.reject("single-class")
    o = supcase.run_case(case, with_prim_hook=False, with_heap_hooks=False)
    if not o.fit.ok:
        if is_library_domain_error(o.fit.exc):
            return res.reject("library-domain-error")
        return res.reject("fit-aborted:" + type(o.fit.exc).__name__)
    m = o.model
    nodes = m.subgraph.nodes
    n = len(nodes)
    if any(nd.relevant != c.IRRELEVANT for nd in nodes):
        res.see("flags_set_before_any_prediction")       # not excluded by the statement as long as the flags are right AFTER the prediction pass
    call = safe_call(m.predict, o.Q.copy(), o.IQ.copy()) if m.pre_computed_distance else safe_call(m.predict, o.Q.copy())
    if not call.ok:
        if is_library_domain_error(call.exc):
            return res.reject("library-domain-error")
        res.violate("exception", f"C17/exception/predict/{type(call.exc).__name__}", f"predict raised at {call.where}")
        return res
    R = supcase.query_weights(o)
    adm = admissible(m, R)
    if any(a is None for a in adm):
        return res.reject("non-finite-query-weight")
    flagged = {i for i in range(n) if nodes[i].relevant == c.RELEVANT}
    winners = [sorted(a[1]) for a in adm]
    closures = [[frozenset(_closure(nodes, t)) for t in w] for w in winners]
    # distinct closure options per query
    options = [sorted(set(cl), key=lambda s: sorted(s)) for cl in closures]
    combos = 1
    for op in options:
        combos *= len(op)
        if combos > 64:
            break
    first = int(m.subgraph.idx_nodes[0]) if m.subgraph.idx_nodes else None
    if any(first in w for w in winners):
        res.see("first_in_order_conqueror")
    if combos > 64:
        res.see("ambiguous_batches")
        return res.reject("ambiguous-argmin-combinations")
    res.see("relevance_checked")
    ok = False
    for choice in itertools.product(*options):
        if set().union(*choice) == flagged:
            ok = True
            break
    if not ok:
        expect = set().union(*[op[0] for op in options])
        missing, extra = sorted(expect - flagged), sorted(flagged - expect)
        only_first = False
        if first is not None and any(first in w for w in winners):
            patched_flags = flagged | _closure(nodes, first)
            only_first = any(set().union(*choice) == patched_flags for choice in itertools.product(*options))
        key = "C17/relevance/first-in-order-conqueror-not-flagged" if only_first else "C17/relevance/flags-wrong"
        res.violate("relevance", key,
                    f"after one predict of {len(o.Q)} queries: flagged {sorted(flagged)}; conquerors+ancestors (exhaustive arg-min) {sorted(expect)}; "
                    f"missing {missing}, extra {extra}; first sample of the conquest order = {first}, admissible conquerors per query = {winners[:8]}")
        return res
    if combos > 1:
        res.see("existential_resolution")
    conq = set().union(*[set(w) for w in winners])
    res.nontrivial = bool(flagged - conq) and len(flagged) < n
    res.cell("relevance", case["metric"] if not case.get("pre") else "pre", case["gclass"])
    return res


# ------------------------------------------------------------------------------------------- learn
def _exact(r):
    r = np.asarray(r)
    return np.ascontiguousarray(r if r.dtype.kind in "iu" else r.astype(float)).tobytes().hex()


def _multiset(X, Y):
    return sorted((_exact(r), int(y)) for r, y in zip(X, Y))


def _features_fp(m):
    return [_exact(nd.features) for nd in m.subgraph.nodes]


def _laid_out(A, layout, big=False):
    """The caller's matrix in another memory layout (same values): Fortran order, a column slice of a wider table, every other row."""
    A = np.array(A, dtype=np.int64 if big else float)
    if big:
        return np.asfortranarray(A) if layout == "fortran" else A       # 64-bit integer identifiers/counters beyond 2**53: no float holds them
    if layout == "fortran":
        return np.asfortranarray(A)
    if layout == "column-slice":
        T = np.hstack([A, np.full((len(A), 2), -7.0)])
        return T[:, : A.shape[1]]
    if layout == "row-stride":
        T = np.empty((2 * len(A), A.shape[1]))
        T[:] = np.nan
        T[::2] = A
        return T[::2]
    return A


def _learn(case, res):
    import os
    import shutil
    import tempfile

    import opfython.math.general as g

    big = bool(case.get("int64"))
    X, Y = _laid_out(case["X"], case.get("layout", "c"), big), np.array(case["Y"], dtype=int)
    V, YV = _laid_out(case["V"], case.get("layout", "c"), big), np.array(case["YV"], dtype=int)
    res.see("layout:" + case.get("layout", "c"))
    if big:
        res.see("int64_beyond_2^53_cases")
    before = _multiset(np.vstack([X, V]), np.hstack([Y, YV]))
    train0 = _multiset(X, Y)
    if case.get("pre"):
        tmp = tempfile.mkdtemp(prefix="c17_")
        try:
            np.savetxt(os.path.join(tmp, "d.txt"), np.array(case["pre"]["D"], dtype=float))
            m = build_model("supervised", case["metric"], pre=os.path.join(tmp, "d.txt"))
        finally:
            shutil.rmtree(tmp, ignore_errors=True)
        res.see("learn_with_precomputed_matrix")
    else:
        m = build_model("supervised", case["metric"])
    rec = hooks.Recorder()

    def after_acc(rec, args, kwargs, result):
        # an iteration's score is an accuracy over the caller's VALIDATION labels as they stand at that moment; any other evaluation
        # (a training accuracy for a log line, a sanity check on other data) is not an iteration
        lab = args[0] if args else kwargs.get("labels")
        try:
            lab = [int(v) for v in np.asarray(lab).ravel()]
            # validation-sized label vector (the implementation may work on its own copies, so the content need not be the caller's array at
            # this moment); when both sets have the same size only the caller's current validation labels qualify
            on_validation = len(lab) == len(YV) and (len(YV) != len(Y) or lab == [int(v) for v in YV])
        except Exception:  # noqa: BLE001
            on_validation = False
        if not on_validation:
            rec.add("other_accuracy_call", 1)
            return
        obj = last_predictor[0] if last_predictor[0] is not None and getattr(last_predictor[0], "subgraph", None) is not None else m
        # the candidate is the classifier that has just predicted the validation set - the object itself or a scratch classifier
        rec.add("iter", {"acc": float(result), "snap": forest_snapshot(obj), "feat": _features_fp(obj)})

    last_predictor = [None]

    def after_predict(rec, args, kwargs, result):
        last_predictor[0] = args[0]

    np.random.seed(case["rng_seed"])
    real_uniform = np.random.uniform
    if case.get("rng_extreme"):
        # admissible but extreme outcomes of the global uniform generator: the largest double below `high` / exactly `low`
        def extreme_uniform(low=0.0, high=1.0, size=None, _n=[0]):
            _n[0] += 1
            top = np.nextafter(float(high), float(low))
            v = top if case["rng_extreme"] == "high" or (case["rng_extreme"] == "alternate" and _n[0] % 2) else float(low)
            return v if size is None else np.full(size, v)
        np.random.uniform = extreme_uniform
        res.see("extreme_rng_outcomes")
    try:
        import opfython.models.supervised as mv_
        with hooks.patched(rec, [(g, "opf_accuracy", None, after_acc), (mv_.SupervisedOPF, "predict", None, after_predict)]):
            call = safe_call(m.learn, X, Y, V, YV, case["iters"])
    finally:
        np.random.uniform = real_uniform
    iters = rec.of("iter")
    # (a) conservation — also when learn raised
    res.see("learn_conservation_checked")
    if X.shape != np.array(case["X"]).shape or V.shape != np.array(case["V"]).reshape(len(case["V"]), -1).shape or len(Y) != len(case["Y"]) or len(YV) != len(case["YV"]):
        res.violate("conservation", "C17/learn/sizes-changed", "learn changed the sizes of the caller's sets")
        return res
    after = _multiset(np.vstack([X, V]), np.hstack([Y, YV]))
    swapped = _multiset(X, Y) != train0
    if swapped:
        res.see("learn_swaps_executed")
    if after != before:
        lost = [p for p in before if p not in after]
        dup = [p for p in after if after.count(p) > before.count(p)]
        how = "after learn raised " + type(call.exc).__name__ + " at " + str(call.where) if not call.ok else "after learn returned"
        res.violate("conservation", "C17/learn/samples-not-conserved",
                    f"{how}: the multiset of (features,label) over train+validation changed: {len(lost)} pair(s) lost, {len(set(dup))} duplicated "
                    f"(n_train={len(X)}, n_val={len(V)}, iterations observed={len(iters)})")
        return res
    if not call.ok:
        if is_library_domain_error(call.exc):
            return res.reject("library-domain-error")
        res.violate("learn", f"C17/learn/exception/{type(call.exc).__name__}",
                    f"learn raised {type(call.exc).__name__} at {call.where} after {len(iters)} iteration(s) with accuracies {[round(i['acc'], 4) for i in iters]}: {str(call.exc)[:160]}")
        return res
    if not iters:
        return res.reject("no-iteration-observed")
    # (b) the classifier left in the object is a best iteration's
    accs = [i["acc"] for i in iters]
    best = max(accs)
    final_snap, final_feat = forest_snapshot(m), _features_fp(m)
    res.see("learn_best_model_checked")
    matches = [t for t, i in enumerate(iters) if snapshot_diff(i["snap"], final_snap) is None and i["feat"] == final_feat]
    if not any(accs[t] == best for t in matches):
        which = matches[0] if matches else None
        res.violate("best-model", "C17/learn/best-model-not-kept",
                    f"validation accuracies per iteration {[round(a, 4) for a in accs]} (best {best:.4f} at iteration(s) {[t for t, a in enumerate(accs) if a == best]}); "
                    f"the classifier left in the object equals iteration {which}'s" + ("" if which is not None else " (none of the observed iterations)"))
        return res
    # the object must also BEHAVE as that classifier: predictions after learn are judged by the exhaustive scan over its own forest
    if case.get("pre"):
        if accs[-1] != best:
            res.see("learn_best_not_last")
        res.nontrivial = swapped and len(iters) >= 2
        res.cell("learn", "pre", "swapped" if swapped else "noswap")
        return res
    Qv = np.array(V) if big else np.array(V, dtype=float)
    pc = safe_call(m.predict, Qv.copy())
    if not pc.ok:
        res.violate("best-model", f"C17/learn/predict-after-learn-raises/{type(pc.exc).__name__}", f"predict on the object left by learn raised at {pc.where}")
        return res
    nodes = m.subgraph.nodes
    fn = m.distance_fn
    R = np.array([[float(fn(np.array(nd.features) if big else np.array(nd.features, dtype=float), Qv[x].copy())) for x in range(len(Qv))] for nd in nodes])
    adm = admissible(m, R)
    res.see("predict_after_learn_checked")
    for x, a in enumerate(adm):
        if a is not None and int(pc.value[x]) not in a[0]:
            res.violate("best-model", "C17/learn/object-does-not-behave-as-kept-classifier",
                        f"after learn, validation row {x} is predicted {int(pc.value[x])} but the exhaustive scan over the kept forest admits only {sorted(a[0])}")
            return res
    if accs[-1] != best:
        res.see("learn_best_not_last")
    res.nontrivial = swapped and len(iters) >= 2
    res.cell("learn", "iters" + str(min(len(iters), 5)), "swapped" if swapped else "noswap")
    return res


# ------------------------------------------------------------------------------------------- prune
def _prune(case, res):
    import opfython.models.supervised as mv
    import opfython.utils.constants as c

    X, Y = np.array(case["X"], dtype=float), np.array(case["Y"], dtype=int)
    V, YV = np.array(case["V"], dtype=float), np.array(case["YV"], dtype=int)
    original = _multiset(X, Y)
    m = build_model("supervised", case["metric"])
    rec = hooks.Recorder()

    frozen = {}

    def after_predict(rec, args, kwargs, result):
        # the relevance flags as they stand at the EXIT of a prediction pass: what pruning may retain is decided against these,
        # not against flags that were touched again between the pass and the re-fit
        self = args[0]
        if self.subgraph is not None:
            frozen[id(self)] = [(np.asarray(nd.features, dtype=float).tobytes().hex(), int(nd.label), int(nd.relevant)) for nd in self.subgraph.nodes]

    def before_fit(rec, args, kwargs):
        self = args[0]
        prev = None
        if self.subgraph is not None and self.subgraph.trained:
            prev = [(np.asarray(nd.features, dtype=float).tobytes().hex(), int(nd.label), int(nd.relevant)) for nd in self.subgraph.nodes]
            snap = frozen.pop(id(self), None)
            if snap is not None and [t[:2] for t in snap] == [t[:2] for t in prev]:
                if snap != prev:
                    rec.add("flags_changed_after_prediction_pass", 1)
                prev = snap
        Xn = args[1] if len(args) > 1 else kwargs.get("X_train")
        Yn = args[2] if len(args) > 2 else kwargs.get("Y_train")
        rec.add("fit", {"prev": prev, "new": _multiset(Xn, Yn) if len(np.shape(Xn)) == 2 else None, "n": len(Xn)})

    np.random.seed(case["rng_seed"])
    with hooks.patched(rec, [(mv.SupervisedOPF, "fit", before_fit, None), (mv.SupervisedOPF, "predict", None, after_predict)]):
        call = safe_call(m.prune, X, Y, V, YV, case["iters"])
    if rec.of("flags_changed_after_prediction_pass"):
        res.see("flags_changed_between_prediction_pass_and_refit")
    fits = rec.of("fit")
    if not fits:
        return res.reject("no-fit-observed")
    discarded = False
    for t, f in enumerate(fits):
        if f["prev"] is None:
            continue
        res.see("prune_refit_checked")
        keep = sorted((h, y) for h, y, r in f["prev"] if r != c.IRRELEVANT)
        if f["new"] is None:
            if keep:
                res.violate("prune", "C17/prune/refit-not-relevant-rows", f"re-fit #{t} got a malformed training set although {len(keep)} rows were relevant")
                return res
            continue
        # "pruning retains ONLY such samples": the re-fit set is a sub-multiset of the rows flagged relevant in the previous forest
        pool = list(keep)
        extra_rows = 0
        for p_ in f["new"]:
            if p_ in pool:
                pool.remove(p_)
            else:
                extra_rows += 1
        if extra_rows:
            res.violate("prune", "C17/prune/refit-not-relevant-rows",
                        f"re-fit #{t}: {extra_rows} of its {len(f['new'])} training rows are not among the {len(keep)} rows flagged relevant in the previous forest of {len(f['prev'])}")
            return res
        if len(f["new"]) != len(keep):
            res.see("prune_refit_dropped_relevant_rows")
        if len(keep) < len(f["prev"]):
            discarded = True
        rest = list(original)
        for p in f["new"]:
            if p in rest:
                rest.remove(p)
            else:
                res.violate("prune", "C17/prune/not-a-sub-multiset", f"re-fit #{t} trains on a (row,label) pair that is not in the original training set")
                return res
    if X.tolist() != case["X"] or Y.tolist() != case["Y"]:
        res.violate("prune", "C17/prune/caller-data-changed", "prune modified the caller's training arrays")
        return res
    if call.ok:
        final = _multiset([nd.features for nd in m.subgraph.nodes], [nd.label for nd in m.subgraph.nodes])
        rest = list(original)
        for p in final:
            if p in rest:
                rest.remove(p)
            else:
                res.violate("prune", "C17/prune/not-a-sub-multiset", "the final model holds a (row,label) pair that is not in the original training set")
                return res
    else:
        if is_library_domain_error(call.exc):
            return res.reject("library-domain-error")
        res.see("prune_aborted:" + type(call.exc).__name__)
    if discarded:
        res.see("prune_discarded")
    res.nontrivial = discarded
    res.cell("prune", "iters" + str(min(case["iters"], 5)), "aborted" if not call.ok else "ok")
    return res


def extra(tier, seed, shard=0, nshards=1):
    """One designed learn run with a LARGE validation set (6000 rows, one of them misclassified at first): successive accuracies
    (6000 per class) differ by 8.3e-5 < 1e-4, so 'better' must be decided exactly, not up to a convergence tolerance."""
    if shard == 1 or (nshards == 1 and shard == 0):
        # One designed relevance run whose optimum path is ~1100 samples deep (one class on a line, gaps growing away from the
        # prototype, so there are no ties): the conqueror is the far end and EVERY sample of the chain is an ancestor.
        N = 1100
        gaps = 1.0 + (N - np.arange(N)) * 1e-3
        xs = np.concatenate([[0.0], np.cumsum(gaps)])                         # N+1 positions; the last 3 + 2 more belong to class 1
        xs = np.concatenate([xs, xs[-1] + np.array([0.9, 1.7])])
        Yc = [0] * (N - 2) + [1] * 5
        chain = {"part": "relevance", "model": "supervised", "metric": "euclidean", "gclass": "deep-chain", "X": [[float(v)] for v in xs], "Y": Yc,
                 "Q": [[float(xs[0] - 0.4)], [float(xs[-1] + 0.2)]], "pre": None}
        r = check(chain)
        if not r.violations and not r.rejected:
            r.see("deep_path_case")
        out = [({"deep_chain": {"n": len(xs), "expected_depth": N - 3}}, r)] if not r.violations else [(chain, r)]
        if shard != 0:
            return out
    elif shard != 0:
        return []
    else:
        out = []
    rng = np.random.default_rng([seed, 1717])
    a = rng.normal(size=(4, 2)) * 0.3
    b = rng.normal(size=(4, 2)) * 0.3 + 8.0
    X = np.vstack([a, b])
    Y = [0, 0, 0, 0, 1, 1, 1, 1]
    nv = 6000
    V = np.vstack([rng.normal(size=(nv, 2)) * 0.3, rng.normal(size=(nv, 2)) * 0.3 + 8.0])
    YV = [0] * nv + [1] * nv
    V[0] = np.array([5.5, 5.5])        # a class-0 validation sample nearer to class 1: the only error; once swapped in, everything is right
    case = {"part": "learn", "metric": "euclidean", "X": X.tolist(), "Y": Y, "V": V.tolist(), "YV": YV, "iters": 4,
            "rng_seed": int(seed) % (2 ** 31 - 1), "layout": "c", "pre": None}
    r = check(case)
    r.see("big_validation_case")
    return out + [(case, r)]
