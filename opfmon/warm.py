"""Compile / load every registered metric once so that shards start from a warm numba cache."""
import logging
import os
import sys
import warnings

logging.disable(logging.CRITICAL)
warnings.simplefilter("ignore")
REPO = os.environ.get("OPFMON_REPO", "/repo")
if REPO not in sys.path:
    sys.path.insert(0, REPO)
import numpy as np  # noqa: E402

np.seterr(all="ignore")
from opfython.math.distance import DISTANCES  # noqa: E402

x = np.array([0.3, 0.2, 0.5])
y = np.array([0.1, 0.6, 0.3])
for name, fn in DISTANCES.items():
    try:
        fn(x.copy(), y.copy())
        fn(x.copy()[::1], y.copy())
    except Exception as ex:  # a broken metric is the monitors' business, not the warm-up's
        print("warm:", name, repr(ex))
print("warm ok", len(DISTANCES))
