"""Source-free instrumentation: wrap attributes of the already-imported real classes / modules.

A wrapper always calls the original and returns its result unchanged; it only appends to an in-memory
event list and never raises into the code under test.  Everything is restored on exit.
"""
from __future__ import annotations

import contextlib
import functools


class Recorder:
    def __init__(self):
        self.events = []      # list of tuples (name, payload)
        self.missing = []     # hook points that do not exist in this tree

    def add(self, name, payload=None):
        self.events.append((name, payload))

    def of(self, name):
        return [p for n, p in self.events if n == name]

    def count(self, name):
        return sum(1 for n, _ in self.events if n == name)


@contextlib.contextmanager
def patched(rec, targets):
    """targets: list of (owner, attr, before, after).  before(rec, args, kwargs) / after(rec, args, kwargs, result)
    are observation callbacks (either may be None).  Missing attributes are noted in rec.missing."""
    saved = []
    try:
        for owner, attr, before, after in targets:
            had = attr in getattr(owner, "__dict__", {})
            orig = getattr(owner, attr, None)      # resolves inherited methods too (the wrapper is then set on `owner` only)
            if orig is None or not callable(orig):
                rec.missing.append(f"{getattr(owner, '__name__', owner)}.{attr}")
                continue

            def make(orig=orig, before=before, after=after, attr=attr):
                @functools.wraps(orig)
                def wrapper(*args, **kwargs):
                    if before is not None:
                        try:
                            before(rec, args, kwargs)
                        except Exception as ex:  # monitor bugs must not leak into the code under test
                            rec.add("monitor_error", f"{attr}:before:{ex!r}")
                    result = orig(*args, **kwargs)
                    if after is not None:
                        try:
                            after(rec, args, kwargs, result)
                        except Exception as ex:
                            rec.add("monitor_error", f"{attr}:after:{ex!r}")
                    return result
                return wrapper

            saved.append((owner, attr, orig, had))
            setattr(owner, attr, make())
        yield rec
    finally:
        for owner, attr, orig, had in reversed(saved):
            if had:
                setattr(owner, attr, orig)
            else:
                delattr(owner, attr)


# ---- ready-made observation callbacks -----------------------------------------------------------
def heap_targets():
    """Live heap traffic: counts by kind, decrease-key on queued elements, and the in-situ priority-queue
    oracle (the element removed has the extremal cost among all GRAY elements)."""
    import opfython.utils.constants as c
    from opfython.core.heap import Heap

    def before_update(rec, args, kwargs):
        h, p = args[0], args[1]
        rec.add("heap_update_gray" if h.color[p] == c.GRAY else "heap_update_other")

    def before_remove(rec, args, kwargs):
        h = args[0]
        gray = [h.cost[q] for q in range(h.size) if h.color[q] == c.GRAY]
        if any(v != v for v in gray):      # NaN keys have no order: this removal is not judged
            gray = []
        h.__dict__["_opfmon_expect"] = (min(gray) if h.policy == "min" else max(gray)) if gray else None

    def after_remove(rec, args, kwargs, result):
        h = args[0]
        exp = h.__dict__.pop("_opfmon_expect", None)
        if result is False or isinstance(result, bool):
            rec.add("heap_remove_empty")
            return
        rec.add("heap_remove")
        # note: models overwrite h.cost[p] of a removed root *after* remove returns, so reading here is exact
        if exp is not None and exp == exp and h.cost[result] == h.cost[result] and h.cost[result] != exp:   # NaN keys: no order, not judged
            rec.add("heap_live_violation", f"remove returned {result} with cost {h.cost[result]!r}, extremal GRAY cost was {exp!r} (policy {h.policy})")

    return [(Heap, "update", before_update, None), (Heap, "remove", before_remove, after_remove)]
