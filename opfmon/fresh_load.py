"""Run in a FRESH interpreter (no metric compiled yet): load a saved model into a freshly constructed one, snapshot, predict.

usage: python -m opfmon.fresh_load <kind> <model.pkl> <queries.json> <out.json>
"""
import json
import logging
import os
import sys
import warnings

logging.disable(logging.CRITICAL)
warnings.simplefilter("ignore")
REPO = os.environ.get("OPFMON_REPO", "/repo")
sys.path.insert(0, REPO)
import numpy as np  # noqa: E402

from opfmon.snap import build_model, forest_snapshot, safe_call  # noqa: E402


def main():
    kind, pkl, qfile, out = sys.argv[1:5]
    q = json.load(open(qfile))
    m = build_model(kind)
    c = safe_call(m.load, pkl)
    doc = {"load_ok": c.ok, "err": None if c.ok else f"{type(c.exc).__name__}: {c.exc} at {c.where}"}
    if c.ok:
        doc["snapshot"] = forest_snapshot(m)
        Q = np.array(q["Q"], dtype=float)
        p = safe_call(m.predict, Q, np.array(q["IQ"], dtype=int)) if q.get("IQ") is not None else safe_call(m.predict, Q)
        doc["pred_ok"] = p.ok
        if p.ok:
            doc["pred"] = [list(map(int, v)) for v in p.value] if isinstance(p.value, tuple) else list(map(int, p.value))
        else:
            doc["err"] = f"{type(p.exc).__name__}: {p.exc} at {p.where}"
        doc["distance"] = m.distance
        # what the loaded model's metric function actually computes, on fixed probe vectors (written by ANOTHER process than this one)
        px, py = np.array([0.3, 0.2, 0.5, 0.7]), np.array([0.1, 0.6, 0.3, 0.9])
        pr = safe_call(m.distance_fn, px, py)
        doc["probe"] = float(pr.value).hex() if pr.ok else "exc"
    json.dump(doc, open(out, "w"))


if __name__ == "__main__":
    main()
