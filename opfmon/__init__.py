"""opfmon — runtime monitors for gugarosa/opfython (see /verif/DESIGN.md)."""
