"""Reference models, structurally different from the implementation (no heap anywhere)."""
from __future__ import annotations

import numpy as np


class UF:
    def __init__(self, n):
        self.p = list(range(n))

    def find(self, a):
        p = self.p
        while p[a] != a:
            p[a] = p[p[a]]
            a = p[a]
        return a

    def union(self, a, b):
        ra, rb = self.find(a), self.find(b)
        if ra == rb:
            return False
        self.p[rb] = ra
        return True


def sorted_arcs(W):
    n = len(W)
    iu, ju = np.triu_indices(n, 1)
    w = W[iu, ju]
    order = np.argsort(w, kind="stable")
    return [(float(w[k]), int(iu[k]), int(ju[k])) for k in order]


def minimax_kruskal(W, sources):
    """Optimum max-arc path value from the source set, symmetric W: Kruskal-style sweep with union-find.
    A component's members receive the current arc weight when it first joins a component holding a source."""
    n = len(W)
    V = [None] * n
    members = {i: [i] for i in range(n)}
    has = {i: (i in sources) for i in range(n)}
    for s in sources:
        V[s] = 0.0
    uf = UF(n)
    for w, a, b in sorted_arcs(W):
        ra, rb = uf.find(a), uf.find(b)
        if ra == rb:
            continue
        if has[ra] != has[rb]:
            lose = rb if has[ra] else ra
            for m in members[lose]:
                V[m] = w
        uf.p[rb] = ra
        members[ra] = members[ra] + members.pop(rb)
        has[ra] = has[ra] or has.pop(rb)
    return V


def minimax_iterate(W, sources):
    """Same value by fixpoint iteration V[q] <- min(V[q], max(V[p], W[p][q])) — valid for directed weights."""
    n = len(W)
    V = np.full(n, np.inf)
    V[list(sources)] = 0.0
    for _ in range(n + 1):
        cand = np.maximum(V[:, None], W)          # cand[p, q] = max(V[p], W[p][q])
        np.fill_diagonal(cand, np.inf)
        new = np.minimum(V, cand.min(axis=0))
        if np.array_equal(new, V):
            break
        V = new
    return V


def mst_weight_multiset(W):
    """Sorted list of the arc weights of a minimum spanning tree (identical for all MSTs)."""
    n = len(W)
    uf = UF(n)
    out = []
    for w, a, b in sorted_arcs(W):
        if uf.union(a, b):
            out.append(w)
            if len(out) == n - 1:
                break
    return out


def minimax_all_pairs(W):
    """M[u][v] = min over paths of the largest arc (Floyd-Warshall on (min,max)), symmetric or not."""
    M = np.array(W, dtype=float, copy=True)
    n = len(M)
    for k in range(n):
        M = np.minimum(M, np.maximum(M[:, k][:, None], M[k, :][None, :]))
    return M


def cross_arc_sets(W, labels):
    """For symmetric W: (may, must) endpoint sets of cross-class arcs lying in SOME / in EVERY minimum spanning tree."""
    n = len(W)
    M = minimax_all_pairs(W)
    may, must = set(), set()
    for u in range(n):
        for v in range(u + 1, n):
            if labels[u] == labels[v]:
                continue
            w = W[u, v]
            if w != M[u, v]:
                continue          # a strictly lighter connecting path exists: in no MST
            may.update((u, v))
            # in every MST iff u and v are not connected by arcs of weight <= w other than (u,v) itself
            if not _connected_without(W, u, v, w):
                must.update((u, v))
    return may, must


def _connected_without(W, u, v, w):
    n = len(W)
    A = W <= w
    A[u, v] = A[v, u] = False
    seen = np.zeros(n, dtype=bool)
    seen[u] = True
    frontier = [u]
    while frontier:
        nxt = []
        for a in frontier:
            nb = np.nonzero(A[a] & ~seen)[0]
            for b in nb:
                if b == a:
                    continue
                seen[b] = True
                nxt.append(int(b))
        if seen[v]:
            return True
        frontier = nxt
    return bool(seen[v])


def is_spanning_tree(pred, root=None):
    """pred[q] = parent (-1 for the root). Every node reaches the root without cycling, exactly one root (wherever it is)."""
    n = len(pred)
    if sum(1 for p in pred if p == -1) != 1:
        return False
    if root is None:
        root = [q for q in range(n) if pred[q] == -1][0]
    if pred[root] != -1:
        return False
    for q in range(n):
        steps, a = 0, q
        while pred[a] != -1:
            a = pred[a]
            steps += 1
            if steps > n:
                return False
        if a != root:
            return False
    return True
