"""Entry point of a check:  python -m opfmon.cli <ID> <quick|thorough>  |  <ID> --replay FILE

Exit 0: property held on everything observed (KNOWN-FINDING lines may be printed).
Exit 1: line "VIOLATION property=<ID> replay=<path>" for each new violation.
Exit 2: line "INCONCLUSIVE property=<ID> reason=..." (monitor not reached, shard died, watchdog).
"""
from __future__ import annotations

import collections
import json
import os
import shutil
import subprocess
import sys
import tempfile
import time

VERIF = os.path.dirname(os.path.dirname(os.path.abspath(__file__)))
REPO = os.environ.get("OPFMON_REPO", "/repo")
PY = os.environ.get("OPFMON_PYTHON", "/venv/bin/python")
DEFAULT_SEED = 20261002


def child_env():
    env = dict(os.environ)
    env["PYTHONHASHSEED"] = "0"
    env["PYTHONPATH"] = VERIF + os.pathsep + REPO
    env["OPFMON_REPO"] = REPO
    env["PYTHONDONTWRITEBYTECODE"] = "1"
    env.setdefault("NUMBA_NUM_THREADS", "1")
    env.setdefault("OMP_NUM_THREADS", "1")
    env.setdefault("OPENBLAS_NUM_THREADS", "1")
    env.setdefault("MKL_NUM_THREADS", "1")
    return env


def warm(workdir):
    """Compile (or load from numba's on-disk cache) the 47 metrics once before forking shards."""
    t0 = time.time()
    try:
        p = subprocess.run([PY, "-m", "opfmon.warm"], env=child_env(), cwd=workdir, timeout=600,
                           capture_output=True, text=True)
        ok = p.returncode == 0
        msg = (p.stdout + p.stderr)[-2000:]
    except subprocess.TimeoutExpired:
        ok, msg = False, "warm-up timed out"
    return ok, msg, time.time() - t0


def anchor_reach(pid, reached):
    """Which functions of the property's anchored files ran (as Python) during this check, and which never did."""
    import ast

    try:
        props = [json.loads(l) for l in open(os.path.join(VERIF, "properties.jsonl"))]
        files = [p for p in props if p["id"] == pid][0]["anchors"]["files"]
    except Exception:
        return {}
    out_hit, out_miss = [], []
    for rel in files:
        path = os.path.join(REPO, rel)
        if not os.path.exists(path):
            continue
        names = []
        tree = ast.parse(open(path).read())

        def walk(node, prefix):
            for ch in ast.iter_child_nodes(node):
                if isinstance(ch, (ast.FunctionDef, ast.AsyncFunctionDef)):
                    names.append(prefix + ch.name)
                    walk(ch, prefix + ch.name + ".<locals>.")
                elif isinstance(ch, ast.ClassDef):
                    walk(ch, prefix + ch.name + ".")
        walk(tree, "")
        for n in names:
            (out_hit if f"{rel}::{n}" in reached else out_miss).append(f"{rel}::{n}")
    boring = ("__init__",)
    return {"anchored_functions_executed": sorted(out_hit),
            "anchored_functions_not_executed": sorted(m for m in out_miss if not m.endswith(boring)),
            "reach_note": "function-level reach via sys.monitoring in every shard; numba-compiled metric bodies and property getters/setters that were never called are listed as not executed"}


def strict_json(o):
    """Evidence must be strict JSON: non-finite floats in sample cases are written as the strings "inf" / "-inf" / "nan"."""
    import math
    if isinstance(o, float) and not math.isfinite(o):
        return "nan" if o != o else ("inf" if o > 0 else "-inf")
    if isinstance(o, dict):
        return {k: strict_json(v) for k, v in o.items()}
    if isinstance(o, (list, tuple)):
        return [strict_json(v) for v in o]
    return o


def load_known():
    path = os.path.join(VERIF, "known_findings.json")
    if not os.path.exists(path):
        return []
    with open(path) as f:
        return json.load(f).get("findings", [])


def main(argv):
    if len(argv) < 2:
        print(__doc__)
        return 2
    pid = argv[0].upper()
    replay = None
    if argv[1] == "--replay":
        replay = os.path.abspath(argv[2])
        tier = "quick"
    else:
        tier = argv[1]
    if tier not in ("quick", "thorough"):
        print("tier must be quick|thorough")
        return 2
    seed = int(os.environ.get("VERIF_SEED", DEFAULT_SEED))
    sys.path.insert(0, VERIF)
    t0 = time.time()
    workdir = tempfile.mkdtemp(prefix=f"opfmon_{pid}_")
    try:
        return run(pid, tier, seed, replay, workdir, t0)
    finally:
        shutil.rmtree(workdir, ignore_errors=True)


def run(pid, tier, seed, replay, workdir, t0):
    env = child_env()
    ok, msg, warm_s = warm(workdir)
    if not ok:
        print(f"INCONCLUSIVE property={pid} reason=warmup-failed")
        print(msg)
        return 2
    # budget is read in a subprocess-free way: the props modules import only stdlib+numpy at top level
    sys.path.insert(0, REPO)
    import importlib
    import logging
    import warnings

    logging.disable(logging.CRITICAL)
    warnings.simplefilter("ignore")

    mod = importlib.import_module("opfmon.props." + pid.lower())
    budget = mod.BUDGET[tier]
    nshards = 1 if replay else int(budget.get("shards", 8))
    procs = []
    for s in range(nshards):
        out = os.path.join(workdir, f"shard{s}.json")
        sdir = os.path.join(workdir, f"w{s}")
        os.makedirs(sdir)
        cmd = [PY, "-m", "opfmon.shard", pid, tier, str(seed), str(s), str(nshards), out]
        if replay:
            cmd += ["--replay", replay]
        log = open(os.path.join(workdir, f"shard{s}.log"), "w")
        procs.append((s, out, subprocess.Popen(cmd, env=env, cwd=sdir, stdout=log, stderr=subprocess.STDOUT), log))
    hard_deadline = time.time() + float(budget["seconds"]) * 2 + 300
    reports, dead = [], []
    for s, out, p, log in procs:
        try:
            rc = p.wait(timeout=max(1.0, hard_deadline - time.time()))
        except subprocess.TimeoutExpired:
            p.kill()
            p.wait()
            rc = "watchdog"
        log.close()
        if rc != 0 or not os.path.exists(out):
            with open(os.path.join(workdir, f"shard{s}.log")) as f:
                dead.append({"shard": s, "rc": rc, "log": f.read()[-3000:]})
            continue
        with open(out) as f:
            reports.append(json.load(f))

    # ---- fold
    evaluations = sum(r["evaluations"] for r in reports)
    hashes = set()
    obs = collections.Counter()
    cells = set()
    samples, violations, herrs = [], [], []
    reached = set()
    for r in reports:
        reached.update(r.get("reached", []))
        hashes.update(r["nontrivial_hashes"])
        obs.update(r["obs"])
        cells.update(r["cells"])
        samples.extend(r["samples"])
        violations.extend(r["violations"])
        herrs.extend(r["harness_errors"])
    samples = samples[:4]

    known = {k["key"]: k for k in load_known() if k.get("property") == pid and k.get("status") == "known"}
    new_v = [v for v in violations if v["key"] not in known]
    known_v = [v for v in violations if v["key"] in known]

    reasons = []
    if dead:
        reasons.append("shard-died:" + ",".join(str(d["shard"]) + "=" + str(d["rc"]) for d in dead))
    if herrs:
        reasons.append(f"harness-errors:{len(herrs)}")
    if not replay:
        need = int(getattr(mod, "MIN_NONTRIVIAL", 10))
        if len(hashes) < need:
            reasons.append(f"too-few-nontrivial:{len(hashes)}<{need}")
        for name in getattr(mod, "REQUIRED_OBS", []):
            if obs.get(name, 0) <= 0:
                reasons.append(f"monitor-not-reached:{name}")

    wall = time.time() - t0
    cov = {
        "evaluations": int(evaluations),
        "distinct_nontrivial": len(hashes),
        "rule": mod.RULE,
        "samples": samples if samples else [],
        "observations": {k: int(v) for k, v in sorted(obs.items())},
        "cells_observed": len(cells),
        "cells": sorted(cells)[:400],
        "shards": nshards,
        "shards_dead": len(dead),
        "harness_errors": len(herrs),
        "warmup_s": round(warm_s, 2),
        "verdict": "violated" if new_v else ("inconclusive" if reasons else "held-on-observed"),
        "inconclusive_reasons": reasons,
        "known_findings_seen": sorted({v["key"] for v in known_v}),
        "violation_keys": sorted({v["key"] for v in new_v}),
        "exhaustive": False,
    }
    cov.update(anchor_reach(pid, reached))
    if hasattr(mod, "evidence_extra"):
        try:
            cov.update(mod.evidence_extra(obs, cells))
        except Exception as ex:  # evidence decoration must never decide a verdict
            cov["evidence_extra_error"] = repr(ex)
    ev = {
        "property_id": pid, "tier": tier, "seed": seed, "level": "exploration",
        "coverage": cov, "assumptions": list(mod.ASSUMPTIONS), "wall_s": round(wall, 2),
        "violations": len(new_v),
    }
    if not replay and not os.environ.get("OPFMON_NO_EVIDENCE"):
        os.makedirs(os.path.join(VERIF, "evidence"), exist_ok=True)
        tmp = os.path.join(VERIF, "evidence", pid + ".json.tmp")
        with open(tmp, "w") as f:
            json.dump(strict_json(ev), f, indent=1, allow_nan=False, default=str)
        os.replace(tmp, os.path.join(VERIF, "evidence", pid + ".json"))

    print(f"[{pid}/{tier}] seed={seed} evaluations={evaluations} distinct_nontrivial={len(hashes)} "
          f"cells={len(cells)} shards={nshards} wall={wall:.1f}s")
    top = sorted(obs.items(), key=lambda kv: -kv[1])[:14]
    print("  observed: " + ", ".join(f"{k}={v}" for k, v in top))
    for key in sorted({v["key"] for v in known_v}):
        n = sum(1 for v in known_v if v["key"] == key)
        print(f"KNOWN-FINDING: property={pid} {key} — {known[key].get('what', '')} (seen {n}x this run)")
    if new_v:
        seen = set()
        per_key = collections.Counter()
        for v in new_v:
            if v["replay"] in seen:
                continue
            seen.add(v["replay"])
            per_key[v["key"]] += 1
            if per_key[v["key"]] > 2:
                continue
            print(f"VIOLATION property={pid} replay={v['replay']}")
            print(f"    sub={v['sub']} key={v['key']} :: {v['msg'][:500]}")
        for k, n in per_key.items():
            if n > 2:
                print(f"    ... {n - 2} more witnesses with key={k} (replays under {os.path.join(VERIF, 'replays', pid)})")
        return 1
    if reasons:
        print(f"INCONCLUSIVE property={pid} reason=" + ";".join(reasons))
        for d in dead:
            print(d["log"])
        for h in herrs[:3]:
            print(h)
        return 2
    if replay:
        print(f"replay: no violation reproduced for {replay}")
    return 0


if __name__ == "__main__":
    sys.exit(main(sys.argv[1:]))
