"""The fixed per-metric table used by C06 / C08 (and by workloads that need a metric's domain).

For each of the 47 identifiers: the closed form as a scalar loop over ``decimal.Decimal`` (60 digits)
of the exact binary inputs, returning ``(value, magnitude)`` where magnitude = sum of |summands| (the
scale against which rounding error is judged); the domain; the axioms the *mathematical* form has on
that domain; and whether the library applies its EPSILON shift to the arguments.

Forms follow Prasath et al. (2017, "Distance and Similarity Measures Effect on the Performance of
K-Nearest Neighbor Classifier - A Review"), Cha (2007) and Hassanat (2014), with the library's
constant conventions (1/2 in chi-squared and Jensen difference, 2x in additive-symmetric / divergence /
Sangvi, MAX_ARC_WEIGHT*ln(1+d) for the log variants).  Nothing here imports numpy, numba or opfython.

domain : R reals | N non-negative | P strictly positive | Q probability vectors (positive, sum 1)
flags  : s symmetric, n non-negative, z zero self-distance, t triangle inequality
"""
from decimal import Decimal as D, getcontext
getcontext().prec = 60
MAXW = D(100000)
def _abs(a): return a if a >= 0 else -a
def _ln(a): return a.ln()
def _sqrt(a): return a.sqrt()
def _exp(a): return a.exp()
def S(terms):
    t=list(terms); return sum(t, D(0)), sum((_abs(v) for v in t), D(0))
# each returns (value, magnitude)
def additive_symmetric(x,y): v,m=S(((a-b)**2*(a+b))/(a*b) for a,b in zip(x,y)); return 2*v,2*m
def sq_euc(x,y): return S((a-b)**2 for a,b in zip(x,y))
def average_euclidean(x,y): v,m=sq_euc(x,y); return _sqrt(v/len(x)), _sqrt(m/len(x))
def bhattacharyya(x,y): v,m=S(_sqrt(a*b) for a,b in zip(x,y)); return -_ln(v), _abs(_ln(v))+1
def bray_curtis(x,y): n,_=S(_abs(a-b) for a,b in zip(x,y)); d,_=S(a+b for a,b in zip(x,y)); return n/d, _abs(n/d)
def canberra(x,y): return S(_abs(a-b)/(_abs(a)+_abs(b)) for a,b in zip(x,y))
def chebyshev(x,y): v=max(_abs(a-b) for a,b in zip(x,y)); return v,v
def chi_squared(x,y): v,m=S((a-b)**2/(a+b) for a,b in zip(x,y)); return v/2,m/2
def _cos(x,y):
    n,_=S(a*b for a,b in zip(x,y)); nx,_=S(a*a for a in x); ny,_=S(b*b for b in y); return n/(_sqrt(nx)*_sqrt(ny))
def chord(x,y): c=_cos(x,y); r=2-2*c; return _sqrt(r if r>0 else D(0)), D(2)
def clark(x,y): v,m=S(((a-b)/_abs(a+b))**2 for a,b in zip(x,y)); return _sqrt(v),_sqrt(m)
def cosine(x,y): return 1-_cos(x,y), D(1)
def dice(x,y):
    n,_=S(a*b for a,b in zip(x,y)); nx,_=S(a*a for a in x); ny,_=S(b*b for b in y); return 1-2*n/(nx+ny), D(1)
def divergence(x,y): v,m=S((a-b)**2/(a+b)**2 for a,b in zip(x,y)); return 2*v,2*m
def euclidean(x,y): v,m=sq_euc(x,y); return _sqrt(v),_sqrt(m)
def gaussian(x,y): v,m=euclidean(x,y); return _exp(-v), D(1)
def gower(x,y): v,m=S(_abs(a-b) for a,b in zip(x,y)); return v/len(x), m/len(x)
def hamming(x,y): v=D(sum(1 for a,b in zip(x,y) if a!=b)); return v,v
def hassanat(x,y):
    t=[]
    for a,b in zip(x,y):
        lo,hi=min(a,b),max(a,b)
        if lo>=0: t.append(1-(1+lo)/(1+hi))
        else: t.append(1-(1+lo+_abs(lo))/(1+hi+_abs(lo)))
    return S(t)
def hellinger(x,y): v,m=S(2*(_sqrt(a)-_sqrt(b))**2 for a,b in zip(x,y)); return _sqrt(v),_sqrt(m)
def jaccard(x,y):
    n,_=sq_euc(x,y); nx,_=S(a*a for a in x); ny,_=S(b*b for b in y); xy,_=S(a*b for a,b in zip(x,y)); return n/(nx+ny-xy), D(1)
def jeffreys(x,y): return S((a-b)*_ln(a/b) for a,b in zip(x,y))
def jensen(x,y):
    v,_=S((a*_ln(a)+b*_ln(b))/2-((a+b)/2)*_ln((a+b)/2) for a,b in zip(x,y))
    _,m=S(list((a*_ln(a))/2 for a in x)+list((b*_ln(b))/2 for b in y)+list(((a+b)/2)*_ln((a+b)/2) for a,b in zip(x,y)))
    return v/2, m/2
def jensen_shannon(x,y):
    v1,m1=S(a*_ln(2*a/(a+b)) for a,b in zip(x,y)); v2,m2=S(b*_ln(2*b/(a+b)) for a,b in zip(x,y)); return (v1+v2)/2,(m1+m2)/2
def k_divergence(x,y): return S(a*_ln(2*a/(a+b)) for a,b in zip(x,y))
def kulczynski(x,y): n,_=S(_abs(a-b) for a,b in zip(x,y)); d,_=S(min(a,b) for a,b in zip(x,y)); return n/d,_abs(n/d)
def kullback_leibler(x,y): return S(a*_ln(a/b) for a,b in zip(x,y))
def log_euclidean(x,y): v,_=euclidean(x,y); r=MAXW*_ln(v+1); return r,r
def log_squared_euclidean(x,y): v,_=sq_euc(x,y); r=MAXW*_ln(v+1); return r,r
def lorentzian(x,y): return S(_ln(1+_abs(a-b)) for a,b in zip(x,y))
def manhattan(x,y): return S(_abs(a-b) for a,b in zip(x,y))
def matusita(x,y): v,m=S((_sqrt(a)-_sqrt(b))**2 for a,b in zip(x,y)); return _sqrt(v),_sqrt(m)
def max_symmetric(x,y):
    v1,_=S((a-b)**2/a for a,b in zip(x,y)); v2,_=S((a-b)**2/b for a,b in zip(x,y)); r=max(v1,v2); return r,r
def mean_censored_euclidean(x,y):
    v,_=sq_euc(x,y); c=sum(1 for a,b in zip(x,y) if a+b!=0); r=_sqrt(v/c); return r,r
def min_symmetric(x,y):
    v1,_=S((a-b)**2/a for a,b in zip(x,y)); v2,_=S((a-b)**2/b for a,b in zip(x,y)); r=min(v1,v2); return r,r
def neyman(x,y): return S((a-b)**2/a for a,b in zip(x,y))
def non_intersection(x,y): v,m=manhattan(x,y); return v/2,m/2
def pearson(x,y): return S((a-b)**2/b for a,b in zip(x,y))
def sangvi(x,y): v,m=S((a-b)**2/(a+b) for a,b in zip(x,y)); return 2*v,2*m
def soergel(x,y): n,_=S(_abs(a-b) for a,b in zip(x,y)); d,_=S(max(a,b) for a,b in zip(x,y)); return n/d,_abs(n/d)
def squared(x,y): return S((a-b)**2/(a+b) for a,b in zip(x,y))
def squared_chord(x,y): return S((_sqrt(a)-_sqrt(b))**2 for a,b in zip(x,y))
def squared_euclidean(x,y): return sq_euc(x,y)
def statistic(x,y): return S((a-(a+b)/2)/((a+b)/2) for a,b in zip(x,y))
def topsoe(x,y):
    v1,m1=S(a*_ln(2*a/(a+b)) for a,b in zip(x,y)); v2,m2=S(b*_ln(2*b/(a+b)) for a,b in zip(x,y)); return v1+v2,m1+m2
def vicis_symmetric1(x,y): return S((a-b)**2/min(a,b)**2 for a,b in zip(x,y))
def vicis_symmetric2(x,y): return S((a-b)**2/min(a,b) for a,b in zip(x,y))
def vicis_symmetric3(x,y): return S((a-b)**2/max(a,b) for a,b in zip(x,y))
def vicis_wave_hedges(x,y): return S(_abs(a-b)/min(a,b) for a,b in zip(x,y))
# domain: R reals, N nonneg, P positive, Q probability ; flags: s symmetric n nonneg z zero-self t triangle ; e decorated
T = {
 'additive_symmetric':(additive_symmetric,'P','snz',1),'average_euclidean':(average_euclidean,'R','snzt',0),
 'bhattacharyya':(bhattacharyya,'Q','snz',1),'bray_curtis':(bray_curtis,'P','snz',1),'canberra':(canberra,'P','snzt',1),
 'chebyshev':(chebyshev,'R','snzt',0),'chi_squared':(chi_squared,'P','snz',1),'chord':(chord,'P','snz',1),
 'clark':(clark,'P','snz',1),'cosine':(cosine,'P','snz',1),'dice':(dice,'P','snz',1),'divergence':(divergence,'P','snz',1),
 'euclidean':(euclidean,'R','snzt',0),'gaussian':(gaussian,'R','s',0),'gower':(gower,'R','snzt',0),'hamming':(hamming,'R','snzt',0),
 'hassanat':(hassanat,'R','snz',1),'hellinger':(hellinger,'N','snzt',0),'jaccard':(jaccard,'P','snz',1),'jeffreys':(jeffreys,'P','snz',1),
 'jensen':(jensen,'P','snz',1),'jensen_shannon':(jensen_shannon,'P','snz',1),'k_divergence':(k_divergence,'Q','nz',1),
 'kulczynski':(kulczynski,'P','snz',1),'kullback_leibler':(kullback_leibler,'Q','nz',1),'log_euclidean':(log_euclidean,'R','snzt',0),
 'log_squared_euclidean':(log_squared_euclidean,'R','snz',0),'lorentzian':(lorentzian,'R','snzt',0),'manhattan':(manhattan,'R','snzt',0),
 'matusita':(matusita,'N','snzt',0),'max_symmetric':(max_symmetric,'P','snz',1),'mean_censored_euclidean':(mean_censored_euclidean,'P','snz',1),
 'min_symmetric':(min_symmetric,'P','snz',1),'neyman':(neyman,'P','nz',1),'non_intersection':(non_intersection,'R','snzt',0),
 'pearson':(pearson,'P','nz',1),'sangvi':(sangvi,'P','snz',1),'soergel':(soergel,'P','snzt',1),'squared':(squared,'P','snz',1),
 'squared_chord':(squared_chord,'N','snz',0),'squared_euclidean':(squared_euclidean,'R','snz',0),'statistic':(statistic,'P','z',1),
 'topsoe':(topsoe,'P','snz',1),'vicis_symmetric1':(vicis_symmetric1,'P','snz',1),'vicis_symmetric2':(vicis_symmetric2,'P','snz',1),
 'vicis_symmetric3':(vicis_symmetric3,'P','snz',1),'vicis_wave_hedges':(vicis_wave_hedges,'P','snz',1),
}


EPSILON = 1e-20
NAMES = sorted(T)
TRIANGLE = sorted(k for k, v in T.items() if 't' in v[2])
SQRT_FORMS = {'average_euclidean', 'chord', 'clark', 'euclidean', 'hellinger', 'matusita', 'mean_censored_euclidean'}


def reference(name, x, y, shifted=None):
    """Closed-form value and magnitude (floats) for python-float sequences x, y.

    `shifted`: apply the library's EPSILON shift (float addition, as any implementation of the shift
    does) before evaluating; default = the table's 'decorated' flag."""
    ref, _dom, _flags, dec = T[name]
    if shifted is None:
        shifted = bool(dec)
    if shifted:
        x = [float(a) + EPSILON for a in x]
        y = [float(b) + EPSILON for b in y]
    v, m = ref([D(float(a)) for a in x], [D(float(b)) for b in y])
    return float(v), float(m)


# Scales at which the value comparison of C06 is also made ("numeric extremes", lengths <= 8): vectors of the metric's domain
# multiplied by the scale.  Squares stay inside the float64 range at 1e+-80, so a formula evaluated term by term neither overflows
# nor underflows there; a refactoring that multiplies norms before the root, or takes a product instead of a sum of logs, does.
# Probability-domain metrics cannot be rescaled; 'statistic' is dominated by the EPSILON shift at 1e-80 (ill-conditioned).
EXTREME_SCALES = {
 "additive_symmetric": [
  1e-80,
  1e+80
 ],
 "average_euclidean": [
  1e-80,
  1e+80
 ],
 "bhattacharyya": [],
 "bray_curtis": [
  1e-80,
  1e+80
 ],
 "canberra": [
  1e-80,
  1e+80
 ],
 "chebyshev": [
  1e-80,
  1e+80
 ],
 "chi_squared": [
  1e-80,
  1e+80
 ],
 "chord": [
  1e-80,
  1e+80
 ],
 "clark": [
  1e-80,
  1e+80
 ],
 "cosine": [
  1e-80,
  1e+80
 ],
 "dice": [
  1e-80,
  1e+80
 ],
 "divergence": [
  1e-80,
  1e+80
 ],
 "euclidean": [
  1e-80,
  1e+80
 ],
 "gaussian": [
  1e-80,
  1e+80
 ],
 "gower": [
  1e-80,
  1e+80
 ],
 "hamming": [
  1e-80,
  1e+80
 ],
 "hassanat": [
  1e-80,
  1e+80
 ],
 "hellinger": [
  1e-80,
  1e+80
 ],
 "jaccard": [
  1e-80,
  1e+80
 ],
 "jeffreys": [
  1e-80,
  1e+80
 ],
 "jensen": [
  1e-80,
  1e+80
 ],
 "jensen_shannon": [
  1e-80,
  1e+80
 ],
 "k_divergence": [],
 "kulczynski": [
  1e-80,
  1e+80
 ],
 "kullback_leibler": [],
 "log_euclidean": [
  1e-80,
  1e+80
 ],
 "log_squared_euclidean": [
  1e-80,
  1e+80
 ],
 "lorentzian": [
  1e-80,
  1e+80
 ],
 "manhattan": [
  1e-80,
  1e+80
 ],
 "matusita": [
  1e-80,
  1e+80
 ],
 "max_symmetric": [
  1e-80,
  1e+80
 ],
 "mean_censored_euclidean": [
  1e-80,
  1e+80
 ],
 "min_symmetric": [
  1e-80,
  1e+80
 ],
 "neyman": [
  1e-80,
  1e+80
 ],
 "non_intersection": [
  1e-80,
  1e+80
 ],
 "pearson": [
  1e-80,
  1e+80
 ],
 "sangvi": [
  1e-80,
  1e+80
 ],
 "soergel": [
  1e-80,
  1e+80
 ],
 "squared": [
  1e-80,
  1e+80
 ],
 "squared_chord": [
  1e-80,
  1e+80
 ],
 "squared_euclidean": [
  1e-80,
  1e+80
 ],
 "statistic": [
  1e+80
 ],
 "topsoe": [
  1e-80,
  1e+80
 ],
 "vicis_symmetric1": [
  1e-80,
  1e+80
 ],
 "vicis_symmetric2": [
  1e-80,
  1e+80
 ],
 "vicis_symmetric3": [
  1e-80,
  1e+80
 ],
 "vicis_wave_hedges": [
  1e-80,
  1e+80
 ]
}


# Metrics whose float64 evaluation stays accurate (1e-6 relative on the value / the radicand) for NEAR-DUPLICATE pairs
# (y = x*(1 +- 1e-6)): the formula has no cancellation there, so an algebraically equivalent rewrite that introduces one is visible.
NEAR_DUPLICATE_ACCURATE = ['additive_symmetric', 'average_euclidean', 'bray_curtis', 'canberra', 'chebyshev', 'chi_squared', 'clark',
                           'divergence', 'euclidean', 'gaussian', 'gower', 'hamming', 'hassanat', 'hellinger', 'jaccard', 'jeffreys',
                           'kulczynski', 'log_euclidean', 'lorentzian', 'manhattan', 'matusita', 'max_symmetric', 'mean_censored_euclidean',
                           'min_symmetric', 'neyman', 'non_intersection', 'pearson', 'sangvi', 'soergel', 'squared', 'squared_chord',
                           'squared_euclidean', 'statistic', 'vicis_symmetric1', 'vicis_symmetric2', 'vicis_symmetric3', 'vicis_wave_hedges']
