"""Seeded workload generators (vectors in a metric's domain, datasets G1..G8, labels, matrices, queries)."""
from __future__ import annotations

import numpy as np

from .metrics_table import T

GCLASSES = ("G1", "G2", "G3", "G4", "G5", "G6", "G7", "G7S")
LABEL_PATTERNS = ("random", "blob", "alternate", "singleton", "all_distinct")

# metrics that are symmetric, non-negative and zero-self on their domain: usable as OPF arc weights
SYMMETRIC_DISSIMILARITIES = sorted(k for k, v in T.items() if all(f in v[2] for f in "snz"))
EUCLID_FAMILY = ["euclidean", "squared_euclidean", "average_euclidean", "log_euclidean", "log_squared_euclidean"]
# metrics whose float evaluation is bit-symmetric for sure (commutative elementwise ops only)
SAFE_METRICS = ["euclidean", "squared_euclidean", "manhattan", "chebyshev", "log_squared_euclidean",
                "log_euclidean", "gower", "lorentzian", "non_intersection", "average_euclidean"]


# --------------------------------------------------------------------------- vectors
def dom_vec(rng, kind, n, zeros=False, tiny=False):
    """One vector of length n in domain `kind` (R/N/P/Q). zeros=True plants exact zeros (N/P/Q)."""
    if kind in ("R", "N") and (tiny or rng.random() < 0.03):
        # values straddling the library's EPSILON (1e-20): exact comparisons must not turn into thresholds
        v = rng.integers(0, 4, size=n).astype(float) * 0.8e-20
        return v if kind == "N" else v * rng.choice([-1.0, 1.0], size=n)
    if kind == "R":
        mode = rng.integers(0, 4)
        if mode == 0:
            return rng.normal(scale=3.0, size=n)
        if mode == 1:
            return rng.integers(-4, 5, size=n).astype(float)
        if mode == 2:
            return rng.normal(scale=1e3, size=n)
        return np.round(rng.normal(scale=2.0, size=n), 1)
    if kind == "N" or (zeros and kind == "P"):
        v = rng.uniform(0, 5, size=n)
        v[rng.random(n) < (0.3 if zeros or kind == "N" else 0.0)] = 0.0
        return v
    if kind == "P":
        mode = rng.integers(0, 3)
        if mode == 0:
            return rng.uniform(1e-3, 5, size=n)
        if mode == 1:
            return rng.integers(1, 9, size=n).astype(float)
        return rng.uniform(0.5, 500, size=n)
    # Q: probability vector
    v = rng.uniform(1e-3, 1, size=n)
    if zeros and n > 1:
        v[rng.random(n) < 0.3] = 0.0
        v[int(rng.integers(0, n))] += 0.1
    return v / v.sum()


def to_domain(X, kind):
    """Map a real dataset into a metric's domain (used for model workloads under any metric)."""
    X = np.asarray(X, dtype=float)
    if kind == "R":
        return X
    A = np.abs(X)
    if kind == "N":
        return A
    A = A + 0.05
    if kind == "P":
        return A
    return A / A.sum(axis=1, keepdims=True)


# --------------------------------------------------------------------------- datasets
def make_dataset(rng, n, d, gclass):
    if gclass == "G1":
        X = rng.normal(size=(n, d)) * rng.choice([0.5, 1.0, 10.0])
    elif gclass == "G2":
        X = rng.integers(0, int(rng.integers(2, 5)), size=(n, d)).astype(float)
    elif gclass == "G3":
        X = np.round(rng.normal(size=(n, d)), 1)
    elif gclass == "G4":
        m = max(2, n // 2)
        base = rng.normal(size=(m, d))
        X = base[rng.integers(0, m, size=n)]
        X[:m] = base
    elif gclass == "G5":
        t = rng.normal(size=(n, 1)) if rng.random() < 0.5 else np.arange(n, dtype=float)[:, None] * rng.uniform(0.5, 2)
        direction = rng.normal(size=(1, d))
        X = t * direction
    elif gclass == "G6":
        k = int(rng.integers(2, 4))
        centers = rng.normal(size=(k, d)) * 6
        X = centers[rng.integers(0, k, size=n)] + rng.normal(size=(n, d)) * 0.4
        nb = max(1, n // 5)
        a, b = centers[0], centers[1]
        ts = np.sort(rng.uniform(0, 1, size=nb))[:, None]
        X[:nb] = a + ts * (b - a) + rng.normal(size=(nb, d)) * 0.02
        X = X[rng.permutation(n)]
    elif gclass == "G7":
        X = rng.normal(size=(n, d)) * (10.0 ** rng.integers(-6, 7, size=(1, d)))
    elif gclass == "G7S":
        # one global scale, tiny or huge: absolute thresholds (an epsilon, a clip at some constant) show up here
        X = rng.normal(size=(n, d)) * (10.0 ** float(rng.choice([-13, -12, -11, -8, 3, 4, 5, 6])))
    elif gclass == "GJ":
        # jittered lattice + a tight clump + a far outlier: many near-equal (not equal) densities
        side = max(2, int(np.ceil(n ** (1.0 / max(d, 1)))))
        grid = np.stack(np.meshgrid(*[np.arange(side, dtype=float)] * d, indexing="ij"), -1).reshape(-1, d)
        X = grid[rng.permutation(len(grid))[:n]] if len(grid) >= n else grid[rng.integers(0, len(grid), size=n)]
        X = X + rng.normal(size=X.shape) * (10.0 ** float(rng.integers(-6, -1)))
        c = max(1, n // 5)
        X[:c] = X[0] + rng.normal(size=(c, d)) * 1e-3
        X[-1] = X[-1] + 25.0
        X = X[rng.permutation(n)]
    else:
        raise ValueError(gclass)
    return np.ascontiguousarray(X, dtype=float)


def make_labels(rng, X, pattern, K=None):
    n = len(X)
    K = int(K if K is not None else rng.integers(2, min(n, 6) + 1))
    K = max(2, min(K, n))
    if pattern == "random":
        Y = rng.integers(0, K, size=n)
    elif pattern == "blob":
        # label by nearest of K random anchors (spatially coherent classes)
        anchors = X[rng.choice(n, size=K, replace=False)]
        Y = np.argmin(((X[:, None, :] - anchors[None]) ** 2).sum(-1), axis=1)
    elif pattern == "alternate":
        order = np.argsort(X[:, 0], kind="stable")
        Y = np.empty(n, dtype=int)
        Y[order] = np.arange(n) % K
    elif pattern == "singleton":
        Y = np.zeros(n, dtype=int) if K == 2 else rng.integers(0, K - 1, size=n)
        Y[int(rng.integers(0, n))] = K - 1
    elif pattern == "all_distinct":
        Y = rng.permutation(n)
        K = n
    else:
        raise ValueError(pattern)
    Y = np.asarray(Y, dtype=int)
    # make classes exactly 0..K'-1, all present, at least two
    _, Y = np.unique(Y, return_inverse=True)
    if Y.max() == 0:
        Y[int(rng.integers(0, n))] = 1
        _, Y = np.unique(Y, return_inverse=True)
    return Y.astype(int)


def make_queries(rng, X, m):
    """Hostile query rows for a training matrix X: copies, perturbations, midpoints, outliers, duplicates."""
    n, d = X.shape
    Q = []
    for _ in range(m):
        r = rng.random()
        i, j = int(rng.integers(0, n)), int(rng.integers(0, n))
        if r < 0.2:
            q = X[i].copy()
        elif r < 0.4:
            q = X[i] + rng.normal(size=d) * 1e-3
        elif r < 0.6:
            q = (X[i] + X[j]) / 2.0
        elif r < 0.66:
            q = X[i] + rng.normal(size=d) * 50
        elif r < 0.7:
            q = np.full(d, 1e200)               # every distance overflows to +inf: all training samples tie
        elif r < 0.8 and Q:
            q = Q[int(rng.integers(0, len(Q)))].copy()
        else:
            q = X[i] + rng.normal(size=d) * 0.5
        Q.append(q)
    return np.ascontiguousarray(np.array(Q, dtype=float).reshape(m, d))


# --------------------------------------------------------------------------- matrices
def make_matrix(rng, N, kind):
    """Symmetric zero-diagonal N x N weight matrices: M1 metric, M2 random non-metric, M3 few-valued, M4 ultrametric."""
    if kind == "M1":
        P = rng.normal(size=(N, int(rng.integers(1, 4))))
        D = np.sqrt(((P[:, None] - P[None]) ** 2).sum(-1))
        D = (D + D.T) / 2
    elif kind in ("M2", "MZ"):
        A = rng.uniform(0.1, 10, size=(N, N))
        D = np.triu(A, 1)
        D = D + D.T
    elif kind == "M3":
        A = rng.integers(0, 3, size=(N, N)).astype(float)
        D = np.triu(A, 1)
        D = D + D.T
    elif kind == "MN":
        # near-ties: a few base values, every entry scaled by (1 + j*2.5e-13) with a distinct j -> pairwise distinct weights that are
        # equal up to ~1e-12 relative (an "almost equal" comparison would merge them; an exact one must not)
        base = rng.integers(1, 4, size=(N, N)).astype(float)
        js = rng.permutation(N * N).reshape(N, N)        # all distinct: the matrix is tie-free, yet neighbours in rank differ by ~1e-13
        A = np.triu(base * (1.0 + js * 1.1e-13), 1)
        D = A + A.T
    elif kind == "MS":
        # signed symmetric weights with exact zeros (C02 quantifies over all symmetric weight assignments)
        A = np.round(rng.normal(size=(N, N)) * 2.0, 0)
        A = np.triu(A, 1)
        D = A + A.T
    elif kind == "MB":
        # blocks: within-block distances ~1e-13, between-block ~1e10 (ratio 1e-23: far below any absolute epsilon once inverted)
        g = rng.integers(0, max(2, N // 4), size=N)
        A = rng.uniform(0.5, 2.0, size=(N, N))
        A = np.triu(A, 1)
        A = A + A.T
        same = g[:, None] == g[None, :]
        D = np.where(same, A * 1e-13, A * 1e10)
    elif kind == "MD":
        # some arcs carry denormal weights (1e-310): 1/d overflows to inf, inf/inf is NaN in a normalised cut
        A = rng.uniform(0.5, 2.0, size=(N, N))
        A = np.triu(A, 1)
        A = A + A.T
        tiny = np.triu(rng.random((N, N)) < 0.25, 1)
        tiny = tiny | tiny.T
        D = np.where(tiny, A * 1e-310, A)
    elif kind == "MA":
        D = rng.uniform(0.1, 10, size=(N, N))       # asymmetric: D[i][j] != D[j][i]
    elif kind == "ONES":
        D = np.ones((N, N))              # the all-ones matrix the repository's tests install: the all-ties extreme
    elif kind == "M4":
        # ultrametric from a random hierarchical merge
        D = np.zeros((N, N))
        groups = [[i] for i in range(N)]
        h = 0.0
        while len(groups) > 1:
            h += float(rng.uniform(0.1, 1.0))
            a, b = sorted(rng.choice(len(groups), size=2, replace=False))
            for i in groups[a]:
                for j in groups[b]:
                    D[i, j] = D[j, i] = h
            groups[a] = groups[a] + groups[b]
            del groups[b]
    else:
        raise ValueError(kind)
    np.fill_diagonal(D, 0.0)
    if kind == "MZ":
        np.fill_diagonal(D, rng.uniform(0.05, 0.5, size=N))       # self-dissimilarities that are not zero (still finite, non-negative)
    return D


def pick(rng, seq):
    return seq[int(rng.integers(0, len(seq)))]


def sizes(rng, tier, lo=2, quick_hi=40, thorough_hi=120):
    hi = quick_hi if tier == "quick" else thorough_hi
    r = rng.random()
    if r < 0.5:
        return int(rng.integers(lo, min(hi, 12) + 1))
    if r < 0.9:
        return int(rng.integers(lo, min(hi, 40) + 1))
    return int(rng.integers(lo, hi + 1))


def boat():
    """The repository's own test dataset (data/boat.csv: 100 rows, 3 classes, 2 features) — the workload of its test-suite."""
    import os
    path = os.path.join(os.environ.get("OPFMON_REPO", "/repo"), "data", "boat.csv")
    A = np.loadtxt(path, delimiter=",")
    return np.ascontiguousarray(A[:, 2:], dtype=float), A[:, 1].astype(int)


def exhaustive_small_graphs(tier, shard, nshards):
    """Bounded-exhaustive scope for the graph algorithms: EVERY symmetric zero-diagonal weight matrix over a small alphabet
    (all tie patterns) x EVERY labelling with >= 2 classes (up to renaming, labels 0/1 and one 3-class pattern), as pre-computed
    cases.  quick: n=3 over {1,2,3}, n=4 over {1,2};  thorough: n=4 over {1,2,3}, n=5 over {1,2}.  Yields (n, D, Y)."""
    import itertools
    scopes = [(3, (1.0, 2.0, 3.0)), (4, (1.0, 2.0))] if tier == "quick" else [(4, (1.0, 2.0, 3.0)), (5, (1.0, 2.0))]
    k = 0
    for n, alpha in scopes:
        pairs = [(i, j) for i in range(n) for j in range(i + 1, n)]
        labelings = [y for y in itertools.product((0, 1), repeat=n) if 0 < sum(y) < n and y[0] == 0]
        labelings.append(tuple([0, 1, 2] + [int(i % 3) for i in range(n - 3)]))
        for ws in itertools.product(alpha, repeat=len(pairs)):
            for y in labelings:
                k += 1
                if k % nshards != shard:
                    continue
                D = np.zeros((n, n))
                for (i, j), w in zip(pairs, ws):
                    D[i, j] = D[j, i] = w
                yield n, D, list(y)


def int_vec(rng, kind, n, zeros_ok, narrow=False):
    """Integer-valued vector of the domain (to be passed as an int32/int64 array): R up to +-1e5, N/P up to 1000.
    narrow=True: values 0..250 (fits uint8 / uint16; 0..120 also fits int8)."""
    if narrow:
        lo = 0 if (kind in ("R", "N") or zeros_ok) else 1
        return rng.integers(lo, 121, size=n) if rng.random() < 0.5 else rng.integers(lo, 251, size=n)
    if kind == "R":
        return rng.integers(-100000, 100001, size=n) if rng.random() < 0.5 else rng.integers(-5, 6, size=n)
    lo = 0 if (kind == "N" or zeros_ok) else 1
    return rng.integers(lo, 1000 if rng.random() < 0.5 else 6, size=n)
