"""Observation helpers: byte fingerprints of caller arrays, forest snapshots, model construction, safe calls."""
from __future__ import annotations

import hashlib
import os
import traceback

import numpy as np

REPO = os.environ.get("OPFMON_REPO", "/repo")
KINDS = ("supervised", "semi", "knn", "unsup")


def fingerprint(a):
    """Bit-exact identity of an ndarray's content + layout (NaN-safe)."""
    a = np.asarray(a)
    h = hashlib.sha1()
    h.update(str((a.dtype.str, a.shape, a.strides)).encode())
    h.update(np.ascontiguousarray(a).tobytes())
    return h.hexdigest()


def fhex(v):
    """Stable exact text of a number (NaN == NaN, -0.0 != 0.0 kept distinct from 0.0 only by sign)."""
    try:
        return float(v).hex()
    except (TypeError, ValueError):
        return repr(v)


def node_state(n):
    return (fhex(n.cost), int(n.pred), int(n.predicted_label), int(n.label), int(n.status), int(n.root),
            int(n.cluster_label), fhex(n.density), int(n.relevant), int(n.idx))


NODE_FIELDS = ("cost", "pred", "predicted_label", "label", "status", "root", "cluster_label", "density", "relevant", "idx")


def forest_snapshot(opf, fields=NODE_FIELDS, with_order=True, with_knn=True):
    sg = opf.subgraph
    idxs = [NODE_FIELDS.index(f) for f in fields]
    snap = {"nodes": [tuple(node_state(n)[i] for i in idxs) for n in sg.nodes]}
    if with_order:
        snap["idx_nodes"] = [int(i) for i in sg.idx_nodes]
    snap["trained"] = bool(sg.trained)
    if with_knn and hasattr(sg, "best_k"):
        snap["knn"] = (int(sg.best_k), fhex(sg.constant), fhex(sg.density), fhex(sg.min_density), fhex(sg.max_density),
                       int(sg.n_clusters))
    return snap


def snapshot_diff(a, b, fields=NODE_FIELDS):
    """First difference between two snapshots as text, or None."""
    if len(a["nodes"]) != len(b["nodes"]):
        return f"node count {len(a['nodes'])} vs {len(b['nodes'])}"
    for i, (x, y) in enumerate(zip(a["nodes"], b["nodes"])):
        if x != y:
            for f, u, v in zip(fields, x, y):
                if u != v:
                    return f"node {i}.{f}: {_unhex(u)} vs {_unhex(v)}"
    for k in ("idx_nodes", "trained", "knn"):
        if a.get(k) != b.get(k):
            return f"{k}: {a.get(k)} vs {b.get(k)}"
    return None


def _unhex(v):
    if isinstance(v, str):
        try:
            return float.fromhex(v)
        except ValueError:
            return v
    return v


def model_classes():
    import opfython.models.knn_supervised as mk
    import opfython.models.semi_supervised as ms
    import opfython.models.supervised as mv
    import opfython.models.unsupervised as mu

    return {"supervised": mv.SupervisedOPF, "semi": ms.SemiSupervisedOPF, "knn": mk.KNNSupervisedOPF,
            "unsup": mu.UnsupervisedOPF}


def build_model(kind, metric="log_squared_euclidean", pre=None, **kw):
    cls = model_classes()[kind]
    if kind == "knn":
        return cls(max_k=int(kw.get("max_k", 1)), distance=metric, pre_computed_distance=pre)
    if kind == "unsup":
        return cls(min_k=int(kw.get("min_k", 1)), max_k=int(kw.get("max_k", 1)), distance=metric, pre_computed_distance=pre)
    return cls(distance=metric, pre_computed_distance=pre)


class Call:
    """Result of safe_call: .ok, .value, .exc, .where (innermost frame inside the repository)."""

    __slots__ = ("ok", "value", "exc", "where", "tb")

    def __init__(self):
        self.ok, self.value, self.exc, self.where, self.tb = True, None, None, None, None


def safe_call(fn, *args, **kwargs):
    c = Call()
    try:
        c.value = fn(*args, **kwargs)
    except Exception as ex:  # noqa: BLE001 - everything the code under test raises is an observation
        c.ok = False
        c.exc = ex
        frames = traceback.extract_tb(ex.__traceback__)
        inside = [f for f in frames if "opfython" in f.filename]
        f = inside[-1] if inside else frames[-1]
        c.where = f"{os.path.relpath(f.filename, REPO) if f.filename.startswith(REPO) else f.filename}:{f.lineno} in {f.name}"
        c.tb = "".join(traceback.format_exception(type(ex), ex, ex.__traceback__))[-1500:]
    return c


def is_library_domain_error(ex):
    """opfython's own argument/size/type/value errors = the library rejecting an out-of-domain argument."""
    import opfython.utils.exception as e

    return isinstance(ex, e.Error)


def weight_matrix(opf, nodes=None, rows=None):
    """W[p][q] exactly as the model obtains arc weights (metric on copies in the code's argument order, or
    the pre-computed matrix indexed by Node.idx)."""
    nodes = opf.subgraph.nodes if nodes is None else nodes
    n = len(nodes)
    W = np.zeros((n, n))
    if opf.pre_computed_distance:
        D = opf.pre_distances
        for p in range(n):
            for q in range(n):
                W[p, q] = D[nodes[p].idx][nodes[q].idx]
        return W
    fn = opf.distance_fn
    # `rows`: the caller's own feature rows (what was handed to fit), so that a model which alters the features it stores
    # (cast, rounding, clipping) is judged against the data it was given, not against its altered copy
    feats = [np.array(r, copy=True) for r in rows] if rows is not None else [np.array(nd.features, copy=True) for nd in nodes]
    for p in range(n):
        for q in range(n):
            if p != q:
                W[p, q] = fn(feats[p].copy(), feats[q].copy())
    return W


def tie_free(W):
    """All off-diagonal weights pairwise distinct (as unordered pairs), strictly positive, bit-symmetric."""
    n = len(W)
    if n < 2:
        return True
    if not np.array_equal(W, W.T):
        return False
    iu = np.triu_indices(n, 1)
    v = W[iu]
    if not np.all(np.isfinite(v)) or np.any(v <= 0):
        return False
    return len(np.unique(v)) == len(v)
