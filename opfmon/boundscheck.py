"""numba bounds-check sanitizer pass (run as a subprocess with NUMBA_BOUNDSCHECK=1 and a private NUMBA_CACHE_DIR).

njit code is unchecked by default: an out-of-range index is a silent wild read.  With bounds checking on, the same
access raises IndexError.  Prints one JSON document: per metric the values on a fixed, seeded set of vector pairs
(so the parent can compare them with an unchecked run) and any exception raised.
usage: python -m opfmon.boundscheck <seed>
"""
import json
import logging
import os
import sys
import warnings

logging.disable(logging.CRITICAL)
warnings.simplefilter("ignore")
REPO = os.environ.get("OPFMON_REPO", "/repo")
sys.path.insert(0, REPO)
import numpy as np  # noqa: E402

np.seterr(all="ignore")
from opfython.math.distance import DISTANCES  # noqa: E402

from opfmon.gen import dom_vec  # noqa: E402
from opfmon.metrics_table import T  # noqa: E402


def main():
    seed = int(sys.argv[1])
    rng = np.random.default_rng([seed, 606])
    out = {"boundscheck": os.environ.get("NUMBA_BOUNDSCHECK", "0"), "metrics": {}}
    for name in sorted(DISTANCES):
        kind = T[name][1] if name in T else "P"
        vals, errs = [], []
        for n in (1, 2, 3, 5, 8, 17, 64):
            for layout in ("contig", "strided"):
                x, y = dom_vec(rng, kind, n), dom_vec(rng, kind, n)
                if layout == "strided":
                    bx, by = np.zeros(2 * n), np.zeros(2 * n)
                    bx[::2], by[::2] = x, y
                    x, y = bx[::2], by[::2]
                try:
                    vals.append(float(DISTANCES[name](x, y)).hex())
                except Exception as ex:  # noqa: BLE001
                    vals.append(None)
                    errs.append(f"len={n} {layout}: {type(ex).__name__}: {str(ex)[:120]}")
        out["metrics"][name] = {"values": vals, "errors": errs}
    json.dump(out, sys.stdout)


if __name__ == "__main__":
    main()
