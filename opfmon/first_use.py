"""Fresh-interpreter probe for state fixed by the FIRST use in a process (run as a subprocess by C07.extra).

usage: python -m opfmon.first_use <order>    order in {f64, f32-first, int-first}
Evaluates every registered metric on fixed vectors, after having first evaluated it in another dtype when asked to, and prints
the float64 results (hex) as JSON.  The value a distance returns for given float64 argument values must not depend on that order.
"""
import json
import logging
import os
import sys
import warnings

logging.disable(logging.CRITICAL)
warnings.simplefilter("ignore")
REPO = os.environ.get("OPFMON_REPO", "/repo")
sys.path.insert(0, REPO)
import numpy as np  # noqa: E402

np.seterr(all="ignore")
from opfython.math.distance import DISTANCES  # noqa: E402

X = np.array([0.0, 2.0, 1.0, 0.25])
Y = np.array([3.0, 0.0, 1.5, 0.25])


def main():
    order = sys.argv[1]
    out = {}
    for name, fn in sorted(DISTANCES.items()):
        try:
            if order == "f32-first":
                fn(X.astype(np.float32), Y.astype(np.float32))
            elif order == "int-first":
                fn(np.array([0, 2, 1, 4]), np.array([3, 0, 1, 4]))
        except Exception:  # noqa: BLE001
            pass
        try:
            out[name] = float(fn(X.copy(), Y.copy())).hex()
        except Exception as ex:  # noqa: BLE001
            out[name] = "exc:" + type(ex).__name__
    json.dump(out, sys.stdout)


if __name__ == "__main__":
    main()
