"""Shared workload for the KNN-supervised / unsupervised monitors (C04 C09 C12 C13 C14 C16)."""
from __future__ import annotations

import numpy as np

from . import gen
from .metrics_table import T


NONNEG_METRICS = sorted(k for k, v in T.items() if "n" in v[2])      # includes the asymmetric neyman/pearson/KL/K-divergence


def gen_knn_case(rng, tier, *, model=None, metrics=None, max_n=None, gclasses=None, hostile_val=True, allow_pre=False):
    model = model or ("knn" if rng.random() < 0.5 else "unsup")
    n = gen.sizes(rng, tier, lo=3, quick_hi=30, thorough_hi=70)
    if max_n:
        n = min(n, max_n)
    d = int(rng.integers(1, 6))
    gclasses = gclasses or ("G1", "G2", "G3", "G4", "G5", "G6", "GJ", "G7S")
    gc = gclasses[int(rng.integers(0, len(gclasses)))]
    metric = metrics[int(rng.integers(0, len(metrics)))] if metrics else "log_squared_euclidean"
    kind = T[metric][1]
    nv = int(rng.integers(1, 13))
    A = gen.to_domain(gen.make_dataset(rng, n + nv, d, gc), kind)
    X, V = A[:n], A[n:]
    pattern = gen.LABEL_PATTERNS[int(rng.integers(0, 4))] if rng.random() < 0.5 else "blob"
    Yall = gen.make_labels(rng, A, pattern)
    Y, YV = Yall[:n].copy(), Yall[n:].copy()
    _, Y = np.unique(Y, return_inverse=True)
    if Y.max() == 0 and n >= 2:
        Y[int(rng.integers(0, n))] = 1
    YV = np.minimum(YV, Y.max())
    if hostile_val:
        r = rng.random()
        if r < 0.15:
            YV = (YV + 1) % (Y.max() + 1)          # systematically wrong validation labels
        elif r < 0.3:
            YV = rng.permutation(YV)
    # opf_accuracy's domain: the validation labels must reach the largest class (n_class = max(labels)+1)
    YV[int(rng.integers(0, len(YV)))] = int(Y.max())
    hi = max(1, n - 1)
    max_k = int(min(hi, rng.choice([1, 2, 3, 4, 5, 8, hi])))
    min_k = int(rng.integers(1, max_k + 1))
    Q = gen.to_domain(gen.make_queries(rng, A, int(rng.integers(1, 13))), kind)
    for t in range(len(Q)):
        if rng.random() < 0.3:
            Q[t] = X[int(rng.integers(0, n))]
    case = {"model": model, "metric": metric, "gclass": gc, "pattern": pattern, "X": X.tolist(), "Y": Y.tolist(),
            "V": V.tolist(), "YV": [int(v) for v in YV], "Q": Q.tolist(), "min_k": min_k, "max_k": max_k, "pre": None,
            "refit": bool(rng.random() < 0.15), "kwcall": bool(rng.random() < 0.2)}
    if model == "knn" and rng.random() < 0.08:
        # sparse class identifiers (0 and a few around 40000..100000): the accuracy measure divides by the largest identifier + 1, so a
        # candidate with a validation error scores within 1e-5 of - but below - a perfect one
        K_ = int(max(Y.max(), YV.max())) + 1
        ids = np.concatenate([[0], np.sort(rng.choice(np.arange(30000, 100000), size=max(K_ - 1, 1), replace=False))])
        case["Y"] = [int(ids[v]) for v in Y]
        case["YV"] = [int(ids[v]) for v in YV]
        case["sparse_ids"] = True
    if model == "unsup":
        r = rng.random()
        if r < 0.1:
            ids = rng.choice(np.arange(257, 100000), size=int(Y.max()) + 1, replace=False)      # arbitrary class identifiers
            case["Y"] = [int(ids[v]) for v in Y]
        elif r < 0.2:
            case["no_labels"] = True                     # fit(X) without labels: every true label is 0
            case["Y"] = [0] * n
    if gc == "G2" and rng.random() < 0.3 and metric in gen.SAFE_METRICS:
        case["int_features"] = True
    if rng.random() < 0.08:
        case["I_onthefly"] = [int(v) for v in rng.integers(0, max(2, n // 2), size=n)]
    if allow_pre and rng.random() < 0.25:
        # pre-computed distances.  unsupervised: N x N matrix of a larger dataset, shuffled training subset, queries anywhere.
        # KNN-supervised demands an n_train x n_train matrix: training = a permutation of 0..n-1, validation/query indices inside it.
        mk = gen.pick(rng, ["M1", "M2", "M3", "MB", "MN", "MD", "MZ"] if model == "unsup" else ["M1", "M2", "M3", "MB", "MN", "MZ"])
        case.pop("int_features", None)
        case.pop("I_onthefly", None)
        if model == "knn":
            N = n
            I = rng.permutation(n)
            IV = rng.integers(0, n, size=len(case["V"]))
        else:
            N = n + int(rng.integers(0, 8))
            I = rng.permutation(N)[:n]
            if rng.random() < 0.1:
                I = rng.integers(0, N, size=n)            # with-replacement resample
            IV = None
        D = gen.make_matrix(rng, N, mk)
        IQ = rng.integers(0, N, size=len(case["Q"]))
        case["pre"] = {"D": D.tolist(), "I": [int(i) for i in I], "IV": None if IV is None else [int(i) for i in IV],
                       "IQ": [int(i) for i in IQ], "kind": mk}
        case["gclass"] = "pre:" + mk
    return case


def arrays(case):
    X = np.array(case["X"], dtype=float)
    d = X.shape[1]
    if case.get("int_features"):
        X = X.astype(np.int64)
    return (X, np.array(case["Y"], dtype=int), np.array(case["V"], dtype=float).reshape(-1, d),
            np.array(case["YV"], dtype=int), np.array(case["Q"], dtype=float).reshape(-1, d))


def fit_model(case, m=None, before_final=None):
    """Build + fit the real model of the case. Returns (model, Call)."""
    from .snap import build_model, safe_call

    import os
    import shutil
    import tempfile

    X, Y, V, YV, _ = arrays(case)
    pre = case.get("pre")
    if m is None:
        pre_file = None
        tmp = None
        if pre:
            tmp = tempfile.mkdtemp(prefix="knncase_")
            pre_file = os.path.join(tmp, "d.txt")
            np.savetxt(pre_file, np.array(pre["D"], dtype=float))
        try:
            m = build_model(case["model"], case["metric"], pre=pre_file, max_k=case["max_k"], min_k=case.get("min_k", 1))
        finally:
            if tmp:
                shutil.rmtree(tmp, ignore_errors=True)
    I = np.array(pre["I"], dtype=int) if pre else (np.array(case["I_onthefly"], dtype=int) if case.get("I_onthefly") else None)
    if case.get("no_labels") and case["model"] == "unsup" and not case.get("refit") and not case.get("kwcall"):
        if before_final is not None:
            before_final()
        return m, (safe_call(m.fit, X.copy()) if I is None else safe_call(m.fit, X.copy(), None, I))
    if case.get("refit"):
        # history: the same model object was fitted before on other data of the same shape (reversed rows, shifted values)
        X0, Y0 = (X[::-1] * 1.5 + 0.25).copy(), Y[::-1].copy()
        # the earlier fit ran with a LARGER k range where the data allows it (results remembered per k would outlive it)
        big = min(len(X) - 1, case["max_k"] + 2)
        try:
            m.max_k = int(big)
        except Exception:  # noqa: BLE001
            pass
        if case["model"] == "knn":
            safe_call(m.fit, X0, Y0, V.copy(), YV.copy(), I, np.array(pre["IV"], dtype=int) if pre else None)
        else:
            safe_call(m.fit, X0, Y0, I)
        try:
            if case["model"] == "unsup":
                m.min_k = int(case.get("min_k", 1))
            m.max_k = int(case["max_k"])
        except Exception:  # noqa: BLE001
            pass
        if case["model"] == "unsup" and case["max_k"] >= 3 and len(X) % 3 == 0 and not pre:
            # an earlier, FAILING use of the same object with its final configuration: fewer samples than the configured k range
            # (the library raises there); whatever it did to the object must not narrow the search of the fit that follows
            safe_call(m.fit, X[:3].copy(), Y[:3].copy())
        if len(X) % 2 == 0:
            # same array objects, overwritten in place, handed to the final fit
            X0[:], Y0[:] = X, Y
            X, Y = X0, Y0
    if before_final is not None:
        before_final()
    if case.get("kwcall"):
        Xa, Ya = (X if case.get("refit") else X.copy()), (Y if case.get("refit") else Y.copy())
        if case["model"] == "knn":
            IV = np.array(pre["IV"], dtype=int) if pre else None
            return m, safe_call(m.fit, X_train=Xa, Y_train=Ya, X_val=V.copy(), Y_val=YV.copy(), I_train=I, I_val=IV)
        return m, safe_call(m.fit, X_train=Xa, Y_train=Ya, I_train=I)
    if case["model"] == "knn":
        IV = np.array(pre["IV"], dtype=int) if pre else None
        return m, safe_call(m.fit, X if case.get("refit") else X.copy(), Y if case.get("refit") else Y.copy(), V.copy(), YV.copy(), I, IV)
    return m, safe_call(m.fit, X if case.get("refit") else X.copy(), Y if case.get("refit") else Y.copy(), I)


def predict(case, m, Q, IQ=None):
    from .snap import safe_call

    if case.get("pre"):
        return safe_call(m.predict, Q.copy(), np.array(IQ, dtype=int))
    if case.get("I_onthefly"):
        # identifiers (with repeats) handed over beside a feature metric: they identify nothing there
        ids = np.array([case["I_onthefly"][i % len(case["I_onthefly"])] for i in range(len(Q))], dtype=int)
        return safe_call(m.predict, Q.copy(), ids)
    return safe_call(m.predict, Q.copy())


def query_distances(case, m, Q, IQ=None):
    """dq[x][t] = distance from query x to training node t in the code's argument order (query, train)."""
    nodes = m.subgraph.nodes
    out = np.zeros((len(Q), len(nodes)))
    if case.get("pre"):
        D = m.pre_distances
        for x in range(len(Q)):
            for t, nd in enumerate(nodes):
                out[x, t] = D[int(IQ[x])][nd.idx]
        return out
    fn = m.distance_fn
    feats = [np.array(nd.features, dtype=float) for nd in nodes]
    for x in range(len(Q)):
        for t in range(len(nodes)):
            out[x, t] = float(fn(np.array(Q[x], dtype=float), feats[t].copy()))
    return out


def degenerate_density(case, W=None):
    """Unsupervised precondition: some rank's maximal k-th neighbour distance is 0 (every sample has >= k exact duplicates)
    -> zero density bound -> 0/0 in the pdf.  Outside every statement (DESIGN §5.2-6)."""
    X = np.array(case["X"], dtype=float)
    n = len(X)
    if W is None:
        return False
    for k in range(case.get("min_k", 1), case["max_k"] + 1):
        kth = np.sort(W + np.diag([np.inf] * n), axis=1)[:, min(k, n - 1) - 1]
        if kth.max() <= 0:
            return True
    return False
