"""Shared workload for the KNN-supervised / unsupervised monitors (C04 C09 C12 C13 C14 C16)."""
from __future__ import annotations

import numpy as np

from . import gen
from .metrics_table import T


def gen_knn_case(rng, tier, *, model=None, metrics=None, max_n=None, gclasses=None, hostile_val=True):
    model = model or ("knn" if rng.random() < 0.5 else "unsup")
    n = gen.sizes(rng, tier, lo=3, quick_hi=30, thorough_hi=70)
    if max_n:
        n = min(n, max_n)
    d = int(rng.integers(1, 6))
    gclasses = gclasses or ("G1", "G2", "G3", "G4", "G5", "G6")
    gc = gclasses[int(rng.integers(0, len(gclasses)))]
    metric = metrics[int(rng.integers(0, len(metrics)))] if metrics else "log_squared_euclidean"
    kind = T[metric][1]
    nv = int(rng.integers(1, 13))
    A = gen.to_domain(gen.make_dataset(rng, n + nv, d, gc), kind)
    X, V = A[:n], A[n:]
    pattern = gen.LABEL_PATTERNS[int(rng.integers(0, 4))] if rng.random() < 0.5 else "blob"
    Yall = gen.make_labels(rng, A, pattern)
    Y, YV = Yall[:n].copy(), Yall[n:].copy()
    _, Y = np.unique(Y, return_inverse=True)
    if Y.max() == 0 and n >= 2:
        Y[int(rng.integers(0, n))] = 1
    YV = np.minimum(YV, Y.max())
    if hostile_val:
        r = rng.random()
        if r < 0.15:
            YV = (YV + 1) % (Y.max() + 1)          # systematically wrong validation labels
        elif r < 0.3:
            YV = rng.permutation(YV)
    # opf_accuracy's domain: the validation labels must reach the largest class (n_class = max(labels)+1)
    YV[int(rng.integers(0, len(YV)))] = int(Y.max())
    hi = max(1, n - 1)
    max_k = int(min(hi, rng.choice([1, 2, 3, 4, 5, 8, hi])))
    min_k = int(rng.integers(1, max_k + 1))
    Q = gen.to_domain(gen.make_queries(rng, A, int(rng.integers(1, 13))), kind)
    for t in range(len(Q)):
        if rng.random() < 0.3:
            Q[t] = X[int(rng.integers(0, n))]
    return {"model": model, "metric": metric, "gclass": gc, "pattern": pattern, "X": X.tolist(), "Y": Y.tolist(),
            "V": V.tolist(), "YV": [int(v) for v in YV], "Q": Q.tolist(), "min_k": min_k, "max_k": max_k}


def arrays(case):
    X = np.array(case["X"], dtype=float)
    d = X.shape[1]
    return (X, np.array(case["Y"], dtype=int), np.array(case["V"], dtype=float).reshape(-1, d),
            np.array(case["YV"], dtype=int), np.array(case["Q"], dtype=float).reshape(-1, d))


def fit_model(case, m=None):
    """Build + fit the real model of the case. Returns (model, Call)."""
    from .snap import build_model, safe_call

    X, Y, V, YV, _ = arrays(case)
    if m is None:
        m = build_model(case["model"], case["metric"], max_k=case["max_k"], min_k=case.get("min_k", 1))
    if case["model"] == "knn":
        return m, safe_call(m.fit, X.copy(), Y.copy(), V.copy(), YV.copy())
    return m, safe_call(m.fit, X.copy(), Y.copy())


def degenerate_density(case, W=None):
    """Unsupervised precondition: some rank's maximal k-th neighbour distance is 0 (every sample has >= k exact duplicates)
    -> zero density bound -> 0/0 in the pdf.  Outside every statement (DESIGN §5.2-6)."""
    X = np.array(case["X"], dtype=float)
    n = len(X)
    if W is None:
        return False
    for k in range(case.get("min_k", 1), case["max_k"] + 1):
        kth = np.sort(W + np.diag([np.inf] * n), axis=1)[:, min(k, n - 1) - 1]
        if kth.max() <= 0:
            return True
    return False
