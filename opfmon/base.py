"""Core types shared by every monitor module.

A property module exposes

    ID, RULE, ASSUMPTIONS            strings / list of strings for the evidence file
    BUDGET = {"quick": {...}, "thorough": {...}}   cases / seconds / shards
    REQUIRED_OBS = [...]             observation counters that must be > 0, else inconclusive
    generate(rng, tier, idx) -> case     a JSON-able literal description of one execution
    check(case) -> Result                runs the REAL code under the monitors, judges it
    shrink(case) -> iterator of smaller cases      (optional)
    extra(tier, seed) -> list[Result]    (optional) one-off passes run by shard 0

A *case* is a literal (lists / numbers / strings).  A replay file stores the case, so a replay is
simply ``check(case)`` again in a fresh interpreter.
"""
from __future__ import annotations

import collections
import hashlib
import json
import math


class Result:
    """Outcome of monitoring one execution."""

    __slots__ = ("violations", "nontrivial", "obs", "rejected", "note", "cells")

    def __init__(self):
        self.violations = []  # list of dict(sub=, key=, msg=)
        self.nontrivial = False
        self.obs = collections.Counter()
        self.rejected = None  # reason string when a precondition rejected the case
        self.note = None
        self.cells = set()  # distinct coverage cells observed (strings)

    def violate(self, sub, key, msg):
        """Record a violation.  `sub` = sub-oracle, `key` = mechanism key (known-finding id)."""
        self.violations.append({"sub": sub, "key": key, "msg": str(msg)[:2000]})

    def reject(self, reason):
        self.rejected = reason
        self.obs["rejected:" + reason] += 1
        return self

    def see(self, name, n=1):
        self.obs[name] += n

    def cell(self, *parts):
        self.cells.add("/".join(str(p) for p in parts))

    @property
    def ok(self):
        return not self.violations


def canon(obj):
    """Canonical JSON text of a case (used for hashing / distinctness)."""
    return json.dumps(obj, sort_keys=True, separators=(",", ":"), allow_nan=True)


def case_hash(case):
    return hashlib.sha1(canon(case).encode()).hexdigest()[:16]


def jsonable(o):
    """Convert numpy scalars/arrays & friends to plain JSON-able python values."""
    import numpy as np

    if isinstance(o, dict):
        return {str(k): jsonable(v) for k, v in o.items()}
    if isinstance(o, (list, tuple)):
        return [jsonable(v) for v in o]
    if isinstance(o, np.ndarray):
        return jsonable(o.tolist())
    if isinstance(o, (np.integer,)):
        return int(o)
    if isinstance(o, (np.floating,)):
        return float(o)
    if isinstance(o, (np.bool_,)):
        return bool(o)
    if isinstance(o, (set, frozenset)):
        return sorted(jsonable(v) for v in o)
    return o


def finite(v):
    try:
        return math.isfinite(v)
    except TypeError:
        return False


def brief(case, limit=900):
    """Readable form of a case for the evidence samples: scalars kept, long arrays abbreviated to shape + leading entries."""
    case = jsonable(case)
    s = canon(case)
    if len(s) <= limit:
        return json.loads(s)

    def shape(v):
        dims = []
        while isinstance(v, list):
            dims.append(len(v))
            v = v[0] if v else None
        return dims

    def short(v, depth=0):
        if isinstance(v, dict):
            return {k: short(x, depth + 1) for k, x in v.items()}
        if isinstance(v, list):
            if len(canon(v)) <= 160:
                return v
            head = v[:2] if isinstance(v[0], list) else v[:8]
            return {"shape": shape(v), "first": [short(h, depth + 1) if not isinstance(h, list) else h[:6] for h in head]}
        return v

    out = short(case)
    out["sha"] = case_hash(case)
    return out
