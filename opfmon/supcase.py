"""Shared workload for the supervised / semi-supervised monitors (C01 C02 C03 C04 C11 C15).

A case is a literal dict:
   model   : "supervised" | "semi"
   metric  : identifier
   X, Y    : labeled training rows and labels
   U       : unlabeled rows (semi only; may be [])
   Q       : query rows
   pre     : None | {"D": NxN matrix, "I": train indices, "IQ": query indices}   (pre-computed distances)
run_case() executes the REAL fit under the source-free hooks and returns an Obs with everything the oracles need.
"""
from __future__ import annotations

import os
import shutil
import tempfile

import numpy as np

from . import gen, hooks
from .metrics_table import T
from .snap import build_model, safe_call, weight_matrix


class Obs:
    pass


def gen_case(rng, tier, *, semi=False, metrics=None, force_tie_free=False, allow_pre=True, nq=None, gclasses=None,
             max_n=None, extra_kinds=()):
    n = gen.sizes(rng, tier, lo=2, quick_hi=40, thorough_hi=110)
    if max_n:
        n = min(n, max_n)
    d = int(rng.integers(1, 7))
    gc_given = gclasses is not None
    gclasses = gclasses or gen.GCLASSES
    gc = gclasses[int(rng.integers(0, len(gclasses)))]
    if force_tie_free and not gc_given:
        gc = "G1" if rng.random() < 0.7 else "G7"
    metric = "log_squared_euclidean"
    if metrics:
        metric = metrics[int(rng.integers(0, len(metrics)))]
    nU = 0
    if semi:
        nU = int(rng.choice([0, 1, 2, n // 2, n, 2 * n]))
    X = gen.make_dataset(rng, n + nU, d, gc)
    boat = (not force_tie_free) and rng.random() < 0.02
    if boat:
        try:
            BX, BY = gen.boat()
            sel = rng.permutation(len(BX))[: n + nU]
            if len(sel) == n + nU and len(set(BY[sel[:n]].tolist())) >= 2:
                X, d, gc = BX[sel].copy(), BX.shape[1], "boat"
            else:
                boat = False
        except OSError:
            boat = False
    pattern = gen.LABEL_PATTERNS[int(rng.integers(0, len(gen.LABEL_PATTERNS)))] if rng.random() < 0.6 else "blob"
    kind = T[metric][1]
    X = gen.to_domain(X, kind)
    Xl, U = X[:n], X[n:]
    Y = gen.make_labels(rng, Xl, pattern)
    if boat:
        Y = np.unique(BY[sel[:n]], return_inverse=True)[1]
        pattern = "boat"
    m = int(nq if nq is not None else rng.integers(1, 13))
    Q = gen.to_domain(gen.make_queries(rng, X, m), kind)
    # plant exact copies of training rows among the queries (after the domain map, so they stay exact copies)
    for t in range(m):
        if rng.random() < 0.25:
            Q[t] = X[int(rng.integers(0, len(X)))]
    if rng.random() < 0.1:
        # class identifiers need not be 0..K-1 for the (semi-)supervised models: an injective relabelling to arbitrary integers
        ids = rng.choice(max(50, 2 * (int(Y.max()) + 1)), size=int(Y.max()) + 1, replace=False)
        if rng.random() < 0.5:
            ids = rng.choice(np.arange(257, 100000), size=int(Y.max()) + 1, replace=False)     # beyond CPython's small-int cache
            if rng.random() < 0.3:
                ids = ids.astype(np.int64) + 2 ** 40                                            # 64-bit identifiers (hashes, timestamps)
        Y = ids[Y]
    case = {"model": "semi" if semi else "supervised", "metric": metric, "gclass": gc, "pattern": pattern,
            "X": Xl.tolist(), "Y": [int(v) for v in Y], "U": U.tolist(), "Q": Q.tolist(), "pre": None, "prefit": None,
            "kwcall": bool(rng.random() < 0.2)}
    if rng.random() < 0.15:
        # history: the SAME model object is first fitted on other data of the same shape (state kept between fits would leak)
        P = gen.to_domain(gen.make_dataset(rng, n + nU, d, "G1"), kind)
        case["prefit"] = {"X": P[:n].tolist(), "Y": gen.make_labels(rng, P[:n], "random").tolist(), "U": P[n:].tolist(),
                          "inplace": bool(rng.random() < 0.5)}
    if gc == "G2" and rng.random() < 0.3 and metric in gen.SAFE_METRICS:
        case["int_features"] = True          # the lattice handed over as an int64 matrix (queries and unlabeled rows stay float,
        case["U"] = (np.array(case["U"], dtype=float).reshape(-1, d) + 0.25).tolist() if len(case["U"]) else []      # and fractional)
    if semi and len(case["U"]) == 0:
        case["empty_U_as"] = str(rng.choice(["2d", "2d", "list", "array1d"]))
    if rng.random() < 0.08:
        case["I_onthefly"] = [int(v) for v in rng.integers(0, max(2, n // 2), size=n)]   # identifiers (with repeats) beside a feature metric
    if allow_pre and rng.random() < 0.25:
        mk = gen.pick(rng, ["M1", "M2", "M3", "M4", "ONES", "MN", "MN", "MB", "MZ"] + list(extra_kinds)) if not force_tie_free else gen.pick(rng, ["M1", "M2", "MN", "MN", "MN"])
        extra = int(rng.integers(0, 8))
        N = n + nU + extra
        D = gen.make_matrix(rng, N, mk)
        if semi:
            allowed = [i for i in range(N) if not (n <= i < n + nU)]
            I = rng.choice(allowed, size=n, replace=False)
        else:
            I = rng.choice(N, size=n, replace=False)
        if not semi and not force_tie_free and rng.random() < 0.12:
            I = rng.choice(N, size=n, replace=True)        # a with-replacement resample: two nodes may name the same record
        IQ = rng.integers(0, N, size=m)
        case["pre"] = {"D": D.tolist(), "I": [int(i) for i in I], "IQ": [int(i) for i in IQ], "kind": mk}
        case["metric"] = "log_squared_euclidean"
        case["gclass"] = mk
        # features are irrelevant with a matrix; make them identify the sample
        case["X"] = [[float(i)] for i in case["pre"]["I"]]
        case["U"] = [[float(n + j)] for j in range(nU)]
        case["Q"] = [[float(i)] for i in case["pre"]["IQ"]]
        case.pop("int_features", None)
        case.pop("I_onthefly", None)
        if rng.random() < 0.08 and not semi:
            # the object is built from the matrix file but the switch is turned off before fitting: the feature metric must be used
            case["pre_switched_off"] = True
            case["X"], case["Q"] = Xl.tolist(), Q.tolist()
    return case


def run_case(case, with_prim_hook=True, with_heap_hooks=True):
    """Run the real fit.  Returns Obs (obs.fit.ok tells whether fit returned)."""
    import opfython.models.supervised as mv

    tmp = tempfile.mkdtemp(prefix="supcase_")
    o = Obs()
    try:
        pre_file = None
        pre = case.get("pre")
        if pre:
            pre_file = os.path.join(tmp, "dist.txt")
            np.savetxt(pre_file, np.array(pre["D"], dtype=float))
        o.model = build_model(case["model"], case["metric"], pre=pre_file)
    finally:
        shutil.rmtree(tmp, ignore_errors=True)
    o.X = np.array(case["X"], dtype=float)
    if case.get("int_features"):
        o.X = o.X.astype(np.int64)
    if case.get("pre_switched_off"):
        o.model.pre_computed_distance = False
        pre = None
    o.Y = np.array(case["Y"], dtype=int)
    o.U = np.array(case["U"], dtype=float).reshape(-1, o.X.shape[1]) if len(case.get("U") or []) else np.zeros((0, o.X.shape[1]))
    o.Q = np.array(case["Q"], dtype=float).reshape(-1, o.X.shape[1])
    o.I = np.array(pre["I"], dtype=int) if pre else (np.array(case["I_onthefly"], dtype=int) if case.get("I_onthefly") else None)
    o.IQ = np.array(pre["IQ"], dtype=int) if pre else None
    o.L = len(o.X)
    rec = hooks.Recorder()
    o.rec = rec
    o.prim = None

    def after_prim(rec, args, kwargs, result):
        sg = args[0].subgraph
        rec.add("prim", {"pred": [int(n.pred) for n in sg.nodes], "status": [int(n.status) for n in sg.nodes],
                         "cost": [float(n.cost) for n in sg.nodes], "label": [int(n.label) for n in sg.nodes]})

    targets = []
    if with_prim_hook:
        targets.append((mv.SupervisedOPF, "_find_prototypes", None, after_prim))
    if with_heap_hooks:
        targets += hooks.heap_targets()
    pf = case.get("prefit")
    o.prefit = None
    if pf:
        PX, PY = np.array(pf["X"], dtype=float), np.array(pf["Y"], dtype=int)
        PU = np.array(pf["U"], dtype=float).reshape(-1, PX.shape[1]) if len(pf.get("U") or []) else np.zeros((0, PX.shape[1]))
        if case["model"] == "semi":
            o.prefit = safe_call(o.model.fit, PX, PY, PU, None if o.I is None else o.I.copy())
        else:
            o.prefit = safe_call(o.model.fit, PX, PY, None if o.I is None else o.I.copy())
        if o.prefit.ok and len(o.Q):
            safe_call(o.model.predict, o.Q.copy(), o.IQ.copy()) if o.IQ is not None else safe_call(o.model.predict, o.Q.copy())
    fx, fy, fu = o.X.copy(), o.Y.copy(), o.U.copy()
    if len(o.U) == 0 and case.get("empty_U_as") == "list":
        fu = []
    elif len(o.U) == 0 and case.get("empty_U_as") == "array1d":
        fu = np.array([])
    if pf and pf.get("inplace") and o.prefit is not None:
        # the SAME array objects the model was fitted on before, overwritten in place with the case's data
        PX[:], PY[:] = o.X, o.Y
        if PU.shape == o.U.shape:
            PU[:] = o.U
            fu = PU
        fx, fy = PX, PY
    with hooks.patched(rec, targets):
        It = None if o.I is None else o.I.copy()
        if case.get("kwcall"):                     # the same call with every argument passed by keyword
            if case["model"] == "semi":
                o.fit = safe_call(o.model.fit, X_train=fx, Y_train=fy, X_unlabeled=fu, I_train=It)
            else:
                o.fit = safe_call(o.model.fit, X_train=fx, Y_train=fy, I_train=It)
        elif case["model"] == "semi":
            o.fit = safe_call(o.model.fit, fx, fy, fu, It)
        else:
            o.fit = safe_call(o.model.fit, fx, fy, It)
    prim = rec.of("prim")
    o.prim = prim[-1] if prim else None
    o.hook_missing = list(rec.missing)
    return o


def weights(o):
    """Arc weights over all nodes of the fitted model as the code obtains them."""
    rows = None
    if not o.model.pre_computed_distance and len(o.model.subgraph.nodes) == len(o.X) + len(o.U):
        rows = [o.X[i] for i in range(len(o.X))] + [o.U[i] for i in range(len(o.U))]
    return weight_matrix(o.model, rows=rows)


def query_weights(o, Q=None, IQ=None):
    """R[t][x] = weight between training node t and query x in the code's argument order (train, query)."""
    m = o.model
    nodes = m.subgraph.nodes
    Q = o.Q if Q is None else Q
    IQ = o.IQ if IQ is None else IQ
    R = np.zeros((len(nodes), len(Q)))
    if m.pre_computed_distance:
        D = m.pre_distances
        for t, nd in enumerate(nodes):
            for x in range(len(Q)):
                R[t, x] = D[nd.idx][int(IQ[x])]
        return R
    fn = m.distance_fn
    given = ([o.X[i] for i in range(len(o.X))] + [o.U[i] for i in range(len(o.U))]) if len(nodes) == len(o.X) + len(o.U) else None
    for t, nd in enumerate(nodes):
        ft = np.array(given[t] if given is not None else nd.features, copy=True)
        for x in range(len(Q)):
            R[t, x] = fn(ft.copy(), np.array(Q[x], dtype=float, copy=True))
    return R


def sane_weights(W):
    """Premise of C01/C02: finite, non-negative, bit-symmetric."""
    if not np.all(np.isfinite(W)):
        return "weights-not-finite"
    if np.any(W < 0):
        return "weights-negative"
    if not np.array_equal(W, W.T):
        return "weights-not-bit-symmetric"
    return None
