#!/bin/sh
# tools/run_reverts.sh — re-apply the reverse of every fix: commit (opfmon/selftest/reverts) to a scratch worktree and confirm the check named in
# known_findings.json fires again with the recorded mechanism key.
cd "$(dirname "$0")/.." || exit 2
python3 - <<'PY' > /tmp/reverts.plan
import json
for f in json.load(open('known_findings.json'))['findings']:
    if f.get('status') == 'fixed':
        print(f['commit'], f['property'], f['key'])
PY
while read commit id key; do
  f=opfmon/selftest/reverts/revert_$commit.diff
  [ -f "$f" ] || { echo "MISSING $f"; continue; }
  out=$(tools/mutcheck.sh "$f" "$id" quick 2>&1); rc=$(echo "$out" | grep -o 'exit=[0-9]*' | tail -1 | cut -d= -f2)
  if [ "$rc" = "1" ] && echo "$out" | grep -q "key=$key"; then v=OK; else v=UNEXPECTED; fi
  echo "$v revert_$commit check=$id exit=$rc expected-key=$key seen=$(echo "$out" | grep -o 'key=[^ ]*' | sort -u | head -4 | tr '\n' ' ')"
done < /tmp/reverts.plan
rm -f /tmp/reverts.plan
