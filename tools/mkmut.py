#!/usr/bin/env python3
"""mkmut.py <name> <repo-relative-file> <old> <new> [occurrence]  — write opfmon/selftest/mutants/<name>.diff replacing one occurrence."""
import difflib, sys, os
name, rel, old, new = sys.argv[1:5]
occ = int(sys.argv[5]) if len(sys.argv) > 5 else 1
src = open(os.path.join('/repo', rel)).read()
old = old.encode().decode('unicode_escape'); new = new.encode().decode('unicode_escape')
parts = src.split(old)
if len(parts) <= occ:
    sys.exit(f"occurrence {occ} of {old!r} not found ({len(parts)-1} present)")
mut = old.join(parts[:occ]) + new + old.join(parts[occ:])
diff = ''.join(difflib.unified_diff(src.splitlines(True), mut.splitlines(True), 'a/' + rel, 'b/' + rel))
out = os.path.join(os.path.dirname(os.path.dirname(os.path.abspath(__file__))), 'opfmon/selftest/mutants', name + '.diff')
open(out, 'w').write(diff)
print(out)
