#!/usr/bin/env python3
"""Regenerates /verif/MANIFEST.json from the monitor modules that exist (run after adding a property)."""
import json
import os
import subprocess

VERIF = os.path.dirname(os.path.dirname(os.path.abspath(__file__)))

TEXT = {
    "C01": ("Every supervised fit of a generated workload is judged at the API boundary against two heap-free reference computations of the optimum max-arc path cost (Kruskal-style union-find sweep and value iteration) with exact float equality, plus structural assertions on predecessor chains, labels and conquest order.",
            "differential oracle: recorded forest snapshot vs union-find / value-iteration reference model", "§6 C01"),
    "C02": ("The Prim tree the implementation built (captured by a source-free hook at the return of the prototype search) is checked to be a spanning tree whose sorted weight multiset equals a Kruskal MST's, and the prototype set is checked against its cross-class endpoints; a hook-free boundary oracle (exact on tie-free weights, must/may sandwich on tied ones) always decides.",
            "invariant at a hook + boundary reference model (Kruskal MST multiset, must/may arc sets)", "§6 C02"),
    "C03": ("Every predicted label is checked for membership in the admissible label set of an exhaustive scan over all training samples (exact comparisons, the code's argument order), for supervised and semi-supervised models, metrics and pre-computed matrices.",
            "boundary oracle: exhaustive arg-min reference beside the real predict", "§6 C03"),
    "C04": ("Resubstitution is observed on tie-free sets under every symmetric non-negative zero-self metric and on arbitrary (tied, duplicated) sets for the KNN model.",
            "boundary assertion on recorded fit/predict outputs with checked preconditions", "§6 C04"),
    "C05": ("The real Heap is driven with generated and bounded-exhaustive operation histories; every return value and emptiness/fullness report is judged against a sequential dict model (histories include re-insertion of returned elements, numpy-scalar costs and a policy switch on an emptied heap), and each heap is drained to show exactly-once delivery.",
            "history + executable sequential model (priority-queue linearisation is trivial single-threaded)", "§6 C05"),
    "C06": ("Each registry function is evaluated on vectors of its domain (8 lengths, plain/zero/integer/large classes, contiguous/strided/read-only layouts) beside an independent 60-digit Decimal scalar closed form; whitelist and registry are compared through every model constructor.",
            "differential oracle: Decimal closed-form table vs the real function; registry/option set comparison", "§6 C06"),
    "C07": ("Byte fingerprints of all caller arrays are taken around every public call of generated call histories; repeated evaluations on the same objects are compared bit-for-bit with evaluations on fresh copies; fits at different history points are compared with a fresh model; a write-protection pass (read-only arrays) localises any writer.",
            "before/after fingerprint monitor + history-independence oracle + write-protection sanitizer pass", "§6 C07"),
    "C08": ("Finite/symmetric/non-negative/zero-self/triangle are asserted per the fixed axiom table on identical, parallel, 1-D, zero-containing, collinear and near-degenerate inputs with stated rounding slack.",
            "axiom monitors over the real registry functions with a fixed per-metric axiom table", "§6 C08"),
    "C09": ("For each fitted model the same rows are predicted alone, at many batch positions (including position = training index), in permuted batches, beside duplicates and after earlier predict calls; all results for a row must agree.",
            "history oracle at the predict boundary with uniquely identified rows", "§6 C09"),
    "C10": ("Two models differing only in pre_computed_distance (file written by the library's own routine, .txt and .csv, arbitrary index splits) must have identical forest snapshots and predictions; get_distances is compared with the metric on every ordered pair.",
            "differential oracle between two configurations of the real code, exact equality", "§6 C10"),
    "C11": ("Metamorphic relations across runs: permuted training order and the five mutually monotone Euclidean-family identifiers, on inputs whose joint weight matrices are verified tie-free and order-isomorphic.",
            "metamorphic oracle across executions with checked preconditions", "§6 C11"),
    "C12": ("Adjacency lists, radii, per-rank maxima, density bound, pdf normalisation, initial costs and height elimination of a fresh KNNSubgraph are compared with brute-force sorted references (multisets under ties).",
            "reference-model oracle on the public KNNSubgraph API", "§6 C12"),
    "C13": ("Forest well-formedness, root/label propagation, cost recurrence, strictness and cluster numbering are asserted on snapshots taken at the final clustering call (hook) and at fit return.",
            "structural invariants at a quiescent hook + boundary snapshot", "§6 C13"),
    "C14": ("Each KNN/unsupervised prediction is checked for membership in the admissible result set of an exhaustive k-nearest max-min computation that enumerates ties.",
            "boundary oracle: exhaustive reference with existential tie handling", "§6 C14"),
    "C15": ("C01's oracle over labeled+unlabeled nodes with the implementation's prototypes restricted to labeled ones; U=0 runs are compared with SupervisedOPF.",
            "differential oracle vs reference model and vs the supervised implementation", "§6 C15"),
    "C16": ("The recorded criterion values per candidate k (source-free hooks; any order or pattern of internal calls) are checked against 'smallest arg-best among all candidates', and the state the fit leaves (densities, predecessor links, arc lists) against 'the final model is built with best_k'.",
            "offline checker over a recorded event log + state oracle on the fitted model", "§6 C16"),
    "C17": ("Multiset conservation over learn, best-model retention, exact relevance marking (ancestor closure of exhaustive conquerors) and prune's sub-multiset chain are checked on recorded histories.",
            "conservation / history oracles over recorded events", "§6 C17"),
    "C18": ("Rows carry unique ids so every output row of split/merge/convert/load/parse is attributable; outputs must partition/round-trip the inputs exactly.",
            "conservation oracle with unique ids (exactly-once) at the API boundary", "§6 C18"),
    "C19": ("Snapshot and predictions of a saved+loaded model (in-process and in a fresh interpreter) must equal the original's; saving must not alter the original.",
            "differential oracle original vs reloaded model", "§6 C19"),
    "C20": ("The measures are compared with exact integer/fraction reference implementations on generated label vectors.",
            "reference-model oracle (exact rational arithmetic)", "§6 C20"),
}
NOTE = ("Runtime monitoring: decides only the executions produced (counts in the evidence file). Trusted base: the reference models in /verif/opfmon, "
        "numpy, CPython; workloads are seeded generators described in DESIGN.md §4. Stated domain restrictions are listed in the evidence 'assumptions'.")


def main():
    have = sorted(f[:-3].upper() for f in os.listdir(os.path.join(VERIF, "opfmon", "props")) if f.startswith("c") and f.endswith(".py"))
    unclaimed_path = os.path.join(VERIF, "tools", "unclaimed.json")
    unclaimed = json.load(open(unclaimed_path)) if os.path.exists(unclaimed_path) else {}
    checks, na = [], []
    props = [json.loads(l) for l in open(os.path.join(VERIF, "properties.jsonl"))]
    for p in props:
        pid = p["id"]
        if pid in unclaimed:
            na.append({"property_id": pid, "reason": unclaimed[pid]})
            continue
        if pid not in have:
            na.append({"property_id": pid, "reason": "monitor not built yet at this commit (work in progress; design in DESIGN.md §6)"})
            continue
        text, tech, ref = TEXT[pid]
        checks.append({
            "property_id": pid,
            "quick_cmd": f"./check {pid} quick",
            "thorough_cmd": f"./check {pid} thorough",
            "evidence_file": f"/verif/evidence/{pid}.json",
            "replay_cmd_template": f"./check {pid} --replay {{path}}",
            "engine": "opfmon",
            "level_claimed": {"category": "exploration", "text": text + " Held-on-observed only: no claim beyond the executions counted in the evidence file.", "design_ref": ref},
            "level_note": NOTE,
            "technique": "runtime monitoring — " + tech,
        })
    fixes = subprocess.run(["git", "-C", "/repo", "log", "--format=%h %s"], capture_output=True, text=True).stdout.splitlines()
    fixes = [l for l in fixes if l.split(" ", 1)[1].startswith("fix:")]
    man = {
        "version": 1,
        "setup_cmd": "./setup.sh",
        "hooks": {
            "guard": "OPFYTHON_VERIF",
            "enable": "no source hooks are needed: all observation is attached from /verif by wrapping attributes of the imported real classes (DESIGN.md §3.1); the guard name is reserved and unused",
            "baseline_off_cmd": "cd /repo && /venv/bin/python -m pytest -ra -q -p no:cacheprovider --timeout=900 --continue-on-collection-errors",
            "source_commits": [],
            "add_only": True,
        },
        "engines": [{"name": "opfmon", "path": "/verif/opfmon", "serves_properties": [c["property_id"] for c in checks],
                     "kind_free_text": "Python runtime-monitoring framework: seeded workload generators, source-free hooks on the real classes, reference-model oracles, sharded runner with watchdogs, evidence writer, replay"}],
        "checks": checks,
        "not_applicable": na,
        "notes": "Repairs of genuine defects committed to /repo as 'fix:' commits: " + "; ".join(fixes) + ". See known_findings.json and DESIGN.md §8.",
    }
    with open(os.path.join(VERIF, "MANIFEST.json"), "w") as f:
        json.dump(man, f, indent=1)
    print("claimed:", [c["property_id"] for c in checks], "unclaimed:", [n["property_id"] for n in na])


if __name__ == "__main__":
    main()
