#!/bin/sh
# tools/seedcheck.sh <seed-dir (patch.diff, demo.py, meta.json)> <ID> [tier] [extra check IDs...]
# Confirms the seeded change in a scratch worktree (tests pass, demo passes clean / fails patched) and runs the check(s).
set -u
D="$(realpath "$1")"; ID="$2"; TIER="${3:-quick}"; shift; shift; [ $# -gt 0 ] && shift
EXTRA="$*"
WT="$(mktemp -d /tmp/opfseed.XXXXXX)"; rmdir "$WT"
git -C /repo worktree add --detach "$WT" HEAD >/dev/null 2>&1 || { echo "worktree failed"; exit 3; }
trap 'git -C /repo worktree remove --force "$WT" >/dev/null 2>&1; rm -rf "$WT"' EXIT
run_demo() { (cd "$WT" && PYTHONPATH="$WT" timeout 900 /venv/bin/python "$D/demo.py" >/dev/null 2>&1; echo $?); }
CLEAN=$(run_demo)
git -C "$WT" apply "$D/patch.diff" || { echo "RESULT apply=FAIL"; exit 3; }
TESTS=$(cd "$WT" && PYTHONPATH="$WT" /venv/bin/python -m pytest -q -p no:cacheprovider --timeout=900 tests 2>&1 | tail -1)
PATCHED=$(run_demo)
echo "RESULT demo_clean_rc=$CLEAN demo_patched_rc=$PATCHED tests='$TESTS'"
cd /verif
for P in $ID $EXTRA; do
  OUT=$(OPFMON_REPO="$WT" OPFMON_NO_EVIDENCE=1 ./check "$P" "$TIER" 2>&1); RC=$?
  echo "CHECK $P $TIER rc=$RC $(echo "$OUT" | grep -c '^VIOLATION') violation-lines; $(echo "$OUT" | grep -m1 'key=' | cut -c1-260)"
  [ $RC -eq 2 ] && echo "$OUT" | grep INCONCLUSIVE
done
