#!/bin/sh
# usage: tools/mutcheck.sh <patch.diff> <ID> [tier]   — run a check against a scratch worktree of /repo with the patch applied.
# The worktree lives outside /repo and /verif and is removed afterwards.
set -u
PATCH="$(realpath "$1")"; ID="$2"; TIER="${3:-quick}"
WT="$(mktemp -d /tmp/opfmut.XXXXXX)"
rmdir "$WT"
git -C /repo worktree add --detach "$WT" HEAD >/dev/null 2>&1 || { echo "worktree failed"; exit 3; }
trap 'git -C /repo worktree remove --force "$WT" >/dev/null 2>&1; rm -rf "$WT"' EXIT
# carry uncommitted working-tree edits of /repo (none expected) — checks are against HEAD + patch
git -C "$WT" apply "$PATCH" || { echo "patch does not apply"; exit 3; }
if [ "${RUN_TESTS:-0}" = "1" ]; then
  (cd "$WT" && PYTHONPATH="$WT" /venv/bin/python -m pytest -q -p no:cacheprovider --timeout=900 tests 2>&1 | tail -3)
fi
cd /verif && OPFMON_REPO="$WT" OPFMON_NO_EVIDENCE=1 ./check "$ID" "$TIER"
echo "exit=$?"
