#!/usr/bin/env python3
"""Regenerates /verif/seeded/README.md (table of every independently seeded change and the checks that catch it)."""
import glob, json, os
V = os.path.dirname(os.path.dirname(os.path.abspath(__file__)))
rows = []
benign = []
for f in sorted(glob.glob(os.path.join(V, 'seeded', '*', 'meta.json'))):
    m = json.load(open(f)); name = f.split('/')[-2]
    if name.startswith('benign-') or name.startswith('legit'):
        cl0 = lambda t: (t or '').replace('|', '/').replace('\n', ' ')
        benign.append(f"| {name} | {cl0(m.get('summary'))[:260]} | {', '.join(sorted(m.get('quick_checks_run_against_it', {})))} | {', '.join(m.get('false_alarms') or ['none'])}{' (first run: ' + ', '.join(m['false_alarms_first_run']) + ' - corrected)' if m.get('false_alarms_first_run') else ''}{' - genuinely violates ' + ', '.join(m['genuine_violations']) + ', not a valid control' if m.get('genuine_violations') else ''} |")
        continue
    cl = lambda t: (t or '').replace('|', '/').replace('\n', ' ')
    rows.append(f"| {name} | {cl(m.get('category',''))[:3]} | {cl(m.get('summary'))[:220]} | {cl(m.get('needs_to_manifest'))[:200]} | {', '.join(m.get('caught_by') or ['—'])} |")
txt = f"""# Independently seeded property-breaking changes

{len(rows)} property-breaking changes written by fresh sub-agents (each given only one property's JSON record and a private scratch worktree of the
repository; nothing from /verif). Round 1 (`<ID>-<n>`): three per property, free choice. Round 2 (`<ID>-r2-<n>`): three per
property, each from a different category — (a) two cooperating edits, (b) state carried across calls, (c) configuration-specific,
(d) boundary size / degenerate input, (e) numeric extreme, (f) wrong / stale variable after a refactoring. Round 3 (`<ID>-r3-<n>`)
and round 4 (`<ID>-r4-<n>`): the authors were told which workloads and oracles already exist and asked for changes that need a
rarer coincidence. Round 5 (`<ID>-r5-<group><n>`): eight authors, one per file group, given all twenty statements, chose the
property themselves. Round 6 (`<ID>-r6-<n>`): aimed at C05, C13, C16 and C17 after clauses beyond their statements had been removed. `caught by` lists every check that was run against the change and exits 1; an empty cell (—) means not caught
(DESIGN.md §9 says why the three such round-4 changes are left so).

Every change was confirmed by `tools/seedcheck.sh` in my own scratch worktree before it was filed: the repository's 182 tests pass
with the patch, `demo.py` exits 0 on the clean tree and non-zero with the patch. `meta.json` records that run and which quick
checks exit 1 on the patched tree. To re-run one: `tools/seedcheck.sh seeded/<name> <ID> quick`.
None of these patches is ever applied to /repo itself.

| change | cat. | what was changed | needs, to manifest | caught by (quick tier) |
|---|---|---|---|---|
""" + "\n".join(rows) + """

## Negative controls (no property is broken; every check must stay silent)

`benign-<group>-<n>`: behaviour-preserving refactorings (bit-identical observable behaviour), three per file group, written by
independent sub-agents and verified by them with differential tests. `legit-<group>-<n>`: changes that DO alter observable
behaviour but only in ways no property forbids (other tie-breaking, another valid spanning tree, another admissible label, ...);
`legit2-<group>-<n>`: a second such round written after the round-4/5 strengthenings (other evaluation orders, other RNG APIs,
header-tolerant loaders, re-associated arithmetic, Python-number graph state, ...); `legit3-<group>-<n>`: a third round aimed at
HOW AND WHEN internal steps run (results cached and reused, candidates installed as prefixes of one neighbour search, early stops,
extra bookkeeping calls, deferred / lazy / fully sorted heaps, lazily parsed files); `legit4-<group>-<n>`: a fourth, smaller round (scratch
classifiers, extra logging evaluations, lazily built nodes, other tie rules in predict, ...). "first run" names checks that raised an alarm
before a clause demanding more than its statement was corrected (DESIGN.md, Corrections log); two patches of the third round turned
out to break C19 themselves (models can no longer be pickled) and are kept only as a record.
Each was applied to a scratch worktree and the listed quick checks were run against it (`tools/allchecks_on_patch.sh`).

| control | what was changed | checks run against it | false alarms |
|---|---|---|---|
""" + "\n".join(benign) + "\n"
open(os.path.join(V, 'seeded', 'README.md'), 'w').write(txt)
print(len(rows), 'rows')
