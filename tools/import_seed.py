#!/usr/bin/env python3
"""import_seed.py <seed-dir> <ID> <n> [extra check ids...] — confirm a sub-agent's seeded change and file it under /verif/seeded/<ID>-<n>/."""
import json, os, re, shutil, subprocess, sys
src, pid, n = sys.argv[1], sys.argv[2], sys.argv[3]
extra = sys.argv[4:]
V = os.path.dirname(os.path.dirname(os.path.abspath(__file__)))
out = subprocess.run([os.path.join(V, 'tools/seedcheck.sh'), src, pid, 'quick', *extra], capture_output=True, text=True).stdout
print(out)
m = re.search(r"RESULT demo_clean_rc=(\d+) demo_patched_rc=(\d+) tests='(.*)'", out)
if not m:
    sys.exit('could not confirm: ' + out[-400:])
clean, patched, tests = int(m.group(1)), int(m.group(2)), m.group(3)
confirmed = clean == 0 and patched != 0 and 'passed' in tests and 'failed' not in tests
checks = {}
for line in out.splitlines():
    c = re.match(r"CHECK (C\d+) (\w+) rc=(\d+) (\d+) violation-lines; (.*)", line)
    if c:
        checks[c.group(1)] = {"tier": c.group(2), "exit": int(c.group(3)), "first_violation": c.group(5).strip()}
if not confirmed:
    print('NOT CONFIRMED (kept out of /verif/seeded):', clean, patched, tests)
    sys.exit(1)
dst = os.path.join(V, 'seeded', f'{pid}-{n}')
os.makedirs(dst, exist_ok=True)
shutil.copy(os.path.join(src, 'patch.diff'), dst)
shutil.copy(os.path.join(src, 'demo.py'), dst)
meta = json.load(open(os.path.join(src, 'meta.json')))
meta.update({"property": pid, "author": "independent sub-agent (given only the property text and a scratch worktree)",
             "confirmed_by_me": {"demo_exit_on_clean_tree": clean, "demo_exit_with_patch": patched, "repository_tests_with_patch": tests.strip('= '),
                                 "how": "tools/seedcheck.sh: scratch worktree of /repo HEAD under /tmp, git apply patch.diff, pytest tests, demo.py, then ./check with OPFMON_REPO=<worktree>"},
             "checks_run_against_it": checks,
             "caught_by": sorted(k for k, v in checks.items() if v["exit"] == 1)})
json.dump(meta, open(os.path.join(dst, 'meta.json'), 'w'), indent=1)
print('filed', dst, 'caught_by', meta['caught_by'])
