#!/bin/sh
# tools/sweep.sh <tier> <seed...> — run every check at the given tier for each seed; print one line per (check, seed).
TIER="${1:-quick}"; shift
SEEDS="${*:-20261002}"
cd "$(dirname "$0")/.." || exit 2
BAD=0
for s in $SEEDS; do
  for p in C01 C02 C03 C04 C05 C06 C07 C08 C09 C10 C11 C12 C13 C14 C15 C16 C17 C18 C19 C20; do
    out=$(VERIF_SEED=$s OPFMON_NO_EVIDENCE=${NO_EVIDENCE-1} ./check $p $TIER 2>&1); rc=$?
    echo "$p seed=$s rc=$rc $(echo "$out" | head -1)"
    if [ $rc -ne 0 ]; then BAD=1; echo "$out" | grep -E "VIOLATION|INCONCLUSIVE|key=" | head -6; fi
  done
done
exit $BAD
