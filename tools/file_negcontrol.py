#!/usr/bin/env python3
"""file_negcontrol.py <src-dir> <name> <log> [note] — file a negative control (patch.diff, demo.py, meta.json) under /verif/seeded/<name>/ with the
check results found in <log> (lines '<name> ALLCHECK <ID> rc=<n> ...' and '<name> TESTS ...' written by tools/allchecks_on_patch.sh)."""
import json, os, re, shutil, sys
src, name, log = sys.argv[1:4]
note = sys.argv[4] if len(sys.argv) > 4 else None
V = os.path.dirname(os.path.dirname(os.path.abspath(__file__)))
checks, tests = {}, None
for line in open(log, errors="replace"):
    if not line.startswith(name + " "):
        continue
    m = re.match(re.escape(name) + r" ALLCHECK (C\d+) rc=(\d+) ?(.*)", line)
    if m:
        checks[m.group(1)] = {"exit": int(m.group(2)), "note": m.group(3).strip()[:300]}
    m = re.match(re.escape(name) + r" TESTS (.*)", line)
    if m:
        tests = m.group(1).strip("= \n")
dst = os.path.join(V, "seeded", name)
os.makedirs(dst, exist_ok=True)
for f in ("patch.diff", "demo.py"):
    if os.path.exists(os.path.join(src, f)):
        shutil.copy(os.path.join(src, f), dst)
meta = json.load(open(os.path.join(src, "meta.json")))
meta.update({"kind": "negative control: a legitimate alternative implementation (observable behaviour changes only where no statement forbids it), written by an independent sub-agent",
             "repository_tests_with_patch": tests, "quick_checks_run_against_it": checks,
             "false_alarms": sorted(k for k, v in checks.items() if v["exit"] == 1),
             "inconclusive": sorted(k for k, v in checks.items() if v["exit"] not in (0, 1))})
if note:
    meta["note"] = note
json.dump(meta, open(os.path.join(dst, "meta.json"), "w"), indent=1)
print(name, "checks", len(checks), "false alarms", meta["false_alarms"], "inconclusive", meta["inconclusive"])
