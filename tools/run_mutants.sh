#!/bin/sh
# tools/run_mutants.sh [pattern] — every hand-written mutant / revert against its property's quick check; prints a table.
cd "$(dirname "$0")/.." || exit 2
PAT="${1:-}"
for f in opfmon/selftest/mutants/*$PAT*.diff; do
  b=$(basename "$f" .diff); id=$(echo "$b" | cut -c1-3 | tr a-z A-Z)
  t0=$(date +%s)
  out=$(tools/mutcheck.sh "$f" "$id" quick 2>&1); rc=$(echo "$out" | grep -o 'exit=[0-9]*' | tail -1 | cut -d= -f2)
  t1=$(date +%s)
  key=$(echo "$out" | grep -m1 -o 'key=[^ ]*')
  case "$b" in *control*) want=0;; *) want=1;; esac
  [ "$rc" = "$want" ] && v=OK || v=UNEXPECTED
  echo "$v $b check=$id exit=$rc expected=$want $((t1-t0))s $key"
done
