#!/bin/sh
# tools/allchecks_on_patch.sh <patch.diff> [tier] [IDs...] — apply a patch to a scratch worktree of /repo and run every (or the given) check against it.
PATCH="$(realpath "$1")"; TIER="${2:-quick}"; shift; [ $# -gt 0 ] && shift
IDS="${*:-C01 C02 C03 C04 C05 C06 C07 C08 C09 C10 C11 C12 C13 C14 C15 C16 C17 C18 C19 C20}"
WT="$(mktemp -d /tmp/opfall.XXXXXX)"; rmdir "$WT"
git -C /repo worktree add --detach "$WT" HEAD >/dev/null 2>&1 || { echo "worktree failed"; exit 3; }
trap 'git -C /repo worktree remove --force "$WT" >/dev/null 2>&1; rm -rf "$WT"' EXIT
git -C "$WT" apply "$PATCH" || { echo "APPLY-FAIL $PATCH"; exit 3; }
T=$(cd "$WT" && PYTHONPATH="$WT" /venv/bin/python -m pytest -q -p no:cacheprovider --timeout=900 tests 2>&1 | tail -1)
echo "TESTS $T"
cd /verif
for P in $IDS; do
  OUT=$(OPFMON_REPO="$WT" OPFMON_NO_EVIDENCE=1 ./check "$P" "$TIER" 2>&1); RC=$?
  echo "ALLCHECK $P rc=$RC $(echo "$OUT" | grep -m1 -E 'key=|INCONCLUSIVE' | cut -c1-300)"
done
